/*
 * C19 - explicit-state BFS over the REAL ring buffer (src/utils/ring_buffer.c).
 *
 * One process = one job = (ring size, min_block_size, commit style, seed, #readers, depth,
 * writer alphabet).  A state is a lossless snapshot of the real r_buf_t (scalars + block
 * table + storage bytes) plus the reader cursors and the byte-stream model; a transition
 * restores the snapshot into the real object and calls the real API.  See NOTES.md.
 *
 *   h_c19 --job size,min,style,seed,nr,depth,kmode,mmode [--maxstates N]
 *   h_c19 --trace "size,min,style,seed,nr;op,op,..."      (history replay on a fresh ring)
 */
#include "vh.h"
#include <errno.h>
#include "utils/ring_buffer.h"

#define MAXSIZE		16
#define MAXNE		20		/* block-table entries kept in a snapshot */
#define MAXDEPTH	16
#define BIGREAD		((size_t)1 << 30)	/* "unbounded" read request */
#define SH_NEVER	UINT64_MAX		/* ring byte never written */
#define SH_GARB		(UINT64_MAX - 1)	/* ring byte written by the producer but outside any committed block */
#define DROP_SENT	((size_t)0x5ee5ee5ee5ee5ee5ull)

/* ------------------------------------------------------------------ job */
static size_t	J_size, J_min;
static int	J_style;	/* 0: r_buf_wbuf_set, 1: r_buf_wbuf_set2, 2: both (per op) */
static int	J_seed;		/* 0: fresh ring; 1: one full cycle, rounds shifted so ring round = SIZE_MAX-1; 2: ... = SIZE_MAX */
static int	J_nr;		/* readers */
static int	J_depth;
static int	J_kmode;	/* 0: k in {min, min+1, 2min, size}; 1: every k in min..size */
static int	J_mmode;	/* 0: request exactly what is committed; 1: also request `size` (forces a wrap);
				 * 2: as 1 plus aborted writes: r_buf_wbuf_get(min | size) without a commit (wop.k == 0) */
static size_t	J_ne;		/* table entries in the key */
static size_t	J_maxstates = (size_t)1 << 22;
static size_t	J_target = SIZE_MAX;	/* no further level is started once this many states exist */

/* ------------------------------------------------------------------ live objects */
static r_buf_p	rb;				/* THE real ring */
typedef struct model_s {
	r_buf_rpos_t	rp[2];			/* real reader cursors */
	uint64_t	e[2];			/* next expected stream position */
	uint8_t		e_known[2];
	uint8_t		dropflag[2];		/* a non-zero drop_size was reported since the last delivery */
	uint8_t		skiplag[2];		/* label only: how far behind the reader was when its cursor was moved past e
						 * without a delivery (0 none, 1 lag0, 2 lag1, 3 lagN) */
	uint64_t	W;			/* stream bytes committed so far */
	uint64_t	shadow[MAXSIZE];	/* stream position held by each ring byte */
} model_t;
static model_t	M;

/* ------------------------------------------------------------------ ops */
typedef struct wop_s { uint8_t m, k, off, style; } wop_t;
static wop_t	wops[256];
static int	n_wops;
static const size_t rd_max[3] = { 1, 3, BIGREAD };
static const char *rd_max_name[3] = { "1", "3", "inf" };
static const char *adv_name[3] = { "all", "one", "none" };
/* op code: writer = index into wops; reader = 0x8000 | i<<8 | maxsel<<4 | advsel */
#define OP_R(i, ms, as)	((uint16_t)(0x8000 | ((i) << 8) | ((ms) << 4) | (as)))

/* ------------------------------------------------------------------ measured counters */
static uint64_t	c_states, c_trans, c_pruned, c_crosschecks, c_commit_refused, c_get_short;
static uint64_t	c_drop_reports, c_drop_exact, c_drop_over, c_drop_under, c_drop_unset;
static uint64_t	c_deliveries, c_skips_reported, c_sizeret_mismatch, c_overdeliver;
static uint64_t	c_wraps, c_frag_commits, c_round_wraps, c_set2_rpos_mismatch;
static uint64_t	c_aborted_writes, c_obs, c_init_reads, c_slow_reader_noresync, c_calc_skipped;
static int	g_report = 1;		/* vh_begin() said this case is ours */
static int	g_viol;			/* a clause failed in the current transition */

/* ------------------------------------------------------------------ trace description */
static uint32_t	*st_parent;
static uint16_t	*st_op;
static uint32_t	d_parent = UINT32_MAX;	/* state the current transition starts from */
static uint16_t	d_ops[MAXDEPTH + 2];	/* ops of the current transition (after the parent trace) */
static int	d_nops;
static uint16_t	t_hist[MAXDEPTH + 64];	/* trace mode: ops applied so far */
static int	t_nhist = -1;

static size_t
op_print(char *b, size_t bs, uint16_t op) {
	if (op & 0x8000) {
		return ((size_t)snprintf(b, bs, "R%d.%s.%s", (op >> 8) & 1,
		    rd_max_name[(op >> 4) & 3], adv_name[op & 3]));
	}
	return ((size_t)snprintf(b, bs, "W%u.%u.%u.%s", wops[op].m, wops[op].k, wops[op].off,
	    wops[op].style ? "set2" : "set"));
}

static void
describer(char *buf, size_t bs) {
	uint16_t stack[MAXDEPTH + 64];
	int n = 0, i;
	uint32_t s;
	size_t o;

	o = (size_t)snprintf(buf, bs, "%zu,%zu,%d,%d,%d;", J_size, J_min, J_style, J_seed, J_nr);
	if (t_nhist >= 0) {
		for (i = 0; i < t_nhist; i ++)
			stack[n ++] = t_hist[i];
		for (i = 0; i < n && o + 24 < bs; i ++) {
			o += op_print(buf + o, bs - o, stack[i]);
			buf[o ++] = ',';
		}
	} else {
		for (s = d_parent; s != UINT32_MAX && st_parent[s] != UINT32_MAX; s = st_parent[s])
			stack[n ++] = st_op[s];
		for (i = n - 1; i >= 0 && o + 24 < bs; i --) {
			o += op_print(buf + o, bs - o, stack[i]);
			buf[o ++] = ',';
		}
		for (i = 0; i < d_nops && o + 24 < bs; i ++) {
			o += op_print(buf + o, bs - o, d_ops[i]);
			buf[o ++] = ',';
		}
	}
	if (o > 0 && buf[o - 1] == ',')
		o --;
	buf[o] = 0;
}

static int	g_mute;		/* evaluate, do not report (used when a read is only needed as a reference) */
static int	g_quiet;	/* history re-execution for the snapshot cross-check: nothing is counted or reported */
#define FAIL(clause, ...) do { if (0 == g_mute) { g_viol = 1; if (g_report && 0 == g_quiet) vh_fail(clause, __VA_ARGS__); } } while (0)

static void
begin(const char *target) {
	if (g_quiet)
		return;
	g_report = vh_begin(target);
}
#define NONTRIVIAL() do { if (0 == g_quiet) vh_nontrivial(); } while (0)

/* ------------------------------------------------------------------ byte-stream oracle */
static uint64_t	g_pos[8 * MAXSIZE];	/* stream positions of the bytes of the last checked delivery */

static const char *lag_names[4] = { "", "lag0", "lag1", "lagN" };
static int
lag_num(const r_buf_rpos_t *rp) {
	size_t d = (size_t)(rb->round_num - rp->round_num);
	return ((0 == d) ? 1 : ((1 == d) ? 2 : 3));
}
static const char *
lag_class(const r_buf_rpos_t *rp) {
	return (lag_names[lag_num(rp)]);
}

/* Where would a full read from cursor *src start?  Returns 0 and *q when that read is
 * consistent (used for statistics and labels only, never reports). */
static int check_stream(const char *lag, iovec_p out, size_t n, size_t *total_ret, uint64_t *q_ret);
static int
peek_start(const r_buf_rpos_t *src, uint64_t *q_ret) {
	iovec_t o2[64];
	r_buf_rpos_t cp = *src;
	size_t d2 = 0, s2 = 0, n2, t2 = 0;
	int rc, keep = g_mute;

	n2 = r_buf_data_get(rb, &cp, BIGREAD, o2, rb->iov_count, &d2, &s2);
	if (n2 > rb->iov_count)
		return (1);
	g_mute = 1;
	rc = check_stream("", o2, n2, &t2, q_ret);
	g_mute = keep;
	if (0 == rc && 0 == t2)
		*q_ret = M.W;	/* nothing to read: the reader resumes with the next committed byte */
	return (rc);
}

/* Regions must lie inside the storage and concatenate to consecutive, committed stream
 * bytes.  Returns 0 when consistent.  *total = bytes handed out, *q = position of the first. */
static int
check_stream(const char *lag, iovec_p out, size_t n, size_t *total_ret, uint64_t *q_ret) {
	size_t i, j, total = 0, off;
	uint64_t p, prev = 0;
	char cl[96];

	*total_ret = 0;
	*q_ret = 0;
	for (i = 0; i < n; i ++) {
		if (out[i].iov_base < rb->buf || out[i].iov_base > rb->buf_max ||
		    out[i].iov_len > (size_t)(rb->buf_max - out[i].iov_base)) {
			FAIL("region-outside-storage", "region %zu/%zu = [%td,+%zu) ring size %zu",
			    i, n, out[i].iov_base - rb->buf, out[i].iov_len, rb->size);
			return (1);
		}
		total += out[i].iov_len;
	}
	*total_ret = total;
	if (total > sizeof(g_pos) / sizeof(g_pos[0])) {
		FAIL("delivery-longer-than-ring", "%zu bytes from a ring of %zu", total, rb->size);
		return (1);
	}
	total = 0;
	for (i = 0; i < n; i ++) {
		for (j = 0; j < out[i].iov_len; j ++, total ++) {
			off = (size_t)(out[i].iov_base - rb->buf) + j;
			p = M.shadow[off];
			g_pos[total] = p;
			if (SH_NEVER == p || SH_GARB == p) {
				snprintf(cl, sizeof(cl), "uncommitted-bytes:%s", lag);
				FAIL(cl, "byte %zu of the delivery (ring offset %zu) was never committed (%s)",
				    total, off, (SH_NEVER == p) ? "never written" : "producer's skipped prefix");
				return (1);
			}
			if (rb->buf[off] != (uint8_t)(p % 251)) {
				FAIL("harness:storage-modified", "ring offset %zu holds %u, producer wrote %u",
				    off, rb->buf[off], (unsigned)(p % 251));
				return (1);
			}
			if (0 != total && p != prev + 1) {
				snprintf(cl, sizeof(cl), "out-of-order:%s", lag);
				FAIL(cl, "byte %zu of the delivery is stream byte %llu, previous was %llu "
				    "(first %llu, %zu bytes in %zu regions)", total,
				    (unsigned long long)p, (unsigned long long)prev,
				    (unsigned long long)g_pos[0], *total_ret, n);
				return (1);
			}
			prev = p;
		}
	}
	if (0 != total)
		*q_ret = g_pos[0];
	return (0);
}

/* r_buf_data_get for reader i (on its real cursor) + full oracle.  Returns 0 when consistent. */
static int
do_get(int i, int ms, size_t *total_ret, uint64_t *q_ret) {
	iovec_t out[64];
	size_t drop = DROP_SENT, sz = DROP_SENT, n, total = 0, skipped;
	uint64_t q = 0, q2;
	const char *lag = lag_class(&M.rp[i]);
	int lagn = lag_num(&M.rp[i]);
	r_buf_rpos_t before = M.rp[i];
	char cl[96];

	*total_ret = 0;
	*q_ret = 0;
	n = r_buf_data_get(rb, &M.rp[i], rd_max[ms], out, rb->iov_count, &drop, &sz);
	if (n > rb->iov_count) {
		FAIL("more-regions-than-asked", "returned %zu regions, capacity %zu", n, rb->iov_count);
		return (1);
	}
	if (DROP_SENT == drop) {
		c_drop_unset ++;
		drop = 0;
	}
	if (0 != check_stream(lag, out, n, &total, &q))
		return (1);
	if (sz != total)
		c_sizeret_mismatch ++;	/* recorded, not enforced (NOTES.md) */
	if (total > rd_max[ms])
		c_overdeliver ++;	/* recorded, not enforced */
	if (0 != drop) {
		M.dropflag[i] = 1;
		c_drop_reports ++;
		if (0 == memcmp(&before, &M.rp[i], sizeof(before)))
			c_slow_reader_noresync ++;
		/* How much is really skipped if the reader continues from here? (statistics only) */
		if (0 != peek_start(&M.rp[i], &q2))
			q2 = M.W;
		if (M.e_known[i] && q2 >= M.e[i]) {
			uint64_t oc[2];
			skipped = (size_t)(q2 - M.e[i]);
			if (drop == skipped) c_drop_exact ++;
			else if (drop > skipped) c_drop_over ++;
			else c_drop_under ++;
			oc[0] = drop; oc[1] = skipped;
			vh_outcome(oc, sizeof(oc));
		}
	}
	/* Label: the cursor was moved past the expected position without a delivery. */
	if (0 == total && 0 == M.skiplag[i] && M.e_known[i] &&
	    0 != memcmp(&before, &M.rp[i], sizeof(before)) &&
	    0 == peek_start(&M.rp[i], &q2) && q2 > M.e[i])
		M.skiplag[i] = (uint8_t)lagn;
	if (0 != total) {
		c_deliveries ++;
		if (M.e_known[i]) {
			if (q < M.e[i]) {
				snprintf(cl, sizeof(cl), "repeated-bytes:%s", lag);
				FAIL(cl, "reader %d already consumed up to stream byte %llu, delivery starts at %llu (%zu bytes)",
				    i, (unsigned long long)M.e[i], (unsigned long long)q, total);
				return (1);
			}
			if (q > M.e[i]) {
				if (0 == M.dropflag[i]) {
					snprintf(cl, sizeof(cl), "silent-skip:%s",
					    M.skiplag[i] ? lag_names[M.skiplag[i]] : lag);
					FAIL(cl, "reader %d expected stream byte %llu, delivery starts at %llu and no drop_size was reported",
					    i, (unsigned long long)M.e[i], (unsigned long long)q);
					return (1);
				}
				c_skips_reported ++;
			}
		}
		M.e[i] = q;	/* a reported skip is acknowledged */
		M.e_known[i] = 1;
		M.dropflag[i] = 0;
		M.skiplag[i] = 0;
	}
	*total_ret = total;
	*q_ret = q;
	return (0);
}

static void
do_advance(int i, size_t amount) {
	if (0 == amount)
		return;
	r_buf_rpos_inc(rb, &M.rp[i], amount);
	M.e[i] += amount;
}

/* Full read from a cursor obtained from the API (r_buf_rpos_init / set2's rpos): only
 * stream consistency is demanded (where such a reader starts is not promised). */
static int
check_fresh_cursor(const r_buf_rpos_t *src, uint64_t *q_ret, size_t *total_ret) {
	iovec_t out[64];
	r_buf_rpos_t cp = *src;
	size_t drop = 0, sz = 0, n;

	n = r_buf_data_get(rb, &cp, BIGREAD, out, rb->iov_count, &drop, &sz);
	if (n > rb->iov_count) {
		FAIL("more-regions-than-asked", "returned %zu regions, capacity %zu", n, rb->iov_count);
		return (1);
	}
	return (check_stream(lag_class(src), out, n, total_ret, q_ret));
}

/* ------------------------------------------------------------------ writer step */
/* Returns 0: committed; 1: no successor (violation or infeasible). */
static int
do_write(const wop_t *w) {
	uint8_t *p = NULL;
	size_t got, j, base, round_before = rb->round_num, tot;
	int rc;
	r_buf_rpos_t srp;
	uint64_t q, w_before = M.W;

	begin("r_buf_wbuf_get");
	got = r_buf_wbuf_get(rb, w->m, &p);
	if (0 == got) {
		c_get_short ++;
		return (1);
	}
	if (NULL == p || p < rb->buf || p > rb->buf_max || got > (size_t)(rb->buf_max - p)) {
		FAIL("writer-region-outside-storage", "r_buf_wbuf_get(%u) = %zu bytes at offset %td, ring size %zu",
		    w->m, got, p - rb->buf, rb->size);
		return (1);
	}
	if (got < (size_t)w->k + w->off) {	/* cannot stay inside the region: not a legal continuation */
		c_get_short ++;
		return (1);
	}
	NONTRIVIAL();
	if (0 == w->k) {	/* aborted write (e.g. recv() failed): nothing is filled, nothing is committed */
		if (rb->round_num != round_before) {
			c_wraps ++;
			if (rb->round_num < round_before)
				c_round_wraps ++;
		}
		c_aborted_writes ++;
		return (0);
	}
	if (rb->round_num != round_before) {
		c_wraps ++;
		if (rb->round_num < round_before)
			c_round_wraps ++;
	}
	base = (size_t)(p - rb->buf);
	for (j = 0; j < w->off; j ++) {
		p[j] = 0xFF;
		M.shadow[base + j] = SH_GARB;
	}
	for (j = 0; j < w->k; j ++) {
		p[w->off + j] = (uint8_t)((M.W + j) % 251);
		M.shadow[base + w->off + j] = M.W + j;
	}
	if (w->style) {
		begin("r_buf_wbuf_set2");
		memset(&srp, 0xA5, sizeof(srp));
		rc = r_buf_wbuf_set2(rb, p + w->off, w->k, &srp);
	} else {
		begin("r_buf_wbuf_set");
		rc = r_buf_wbuf_set(rb, w->off, (size_t)w->k + w->off);
	}
	if (0 != rc) {	/* inside the preconditions this is unexpected; the bytes are then not part of the stream */
		c_commit_refused ++;
		for (j = 0; j < w->k; j ++)
			M.shadow[base + w->off + j] = SH_GARB;
		FAIL("commit-refused", "commit of %u bytes at offset %u of a %zu byte region returned %d",
		    w->k, w->off, got, rc);
		return (1);
	}
	M.W += w->k;
	if (w->off)
		c_frag_commits ++;
	NONTRIVIAL();
	if (w->style) {	/* the cursor handed back by set2 must at least be a consistent reader */
		if (0 != check_fresh_cursor(&srp, &q, &tot))
			return (1);
		if (0 == tot || q != w_before)
			c_set2_rpos_mismatch ++;
	}
	return (0);
}

/* ------------------------------------------------------------------ snapshot (= dedup key) */
static r_buf_t	rb_const;		/* the fields no API call may change */
static size_t	KEYSZ;
#define K_HDR	12
#define K_RD	13

static void
put16(uint8_t *p, uint16_t v) { p[0] = (uint8_t)v; p[1] = (uint8_t)(v >> 8); }
static uint16_t
get16(const uint8_t *p) { return ((uint16_t)(p[0] | (p[1] << 8))); }

/* Lossless?  Every field of r_buf_t is either constant (checked) or written below; table
 * entries >= J_ne must be all-zero (checked); cursors and model are written in full.
 * Stream positions are stored relative to W: the library never looks at the storage
 * contents or at positions, and the oracle only uses differences of positions. */
static int
encode(uint8_t *k) {
	size_t i, o;
	uint64_t rel;

	if (rb->buf != rb_const.buf || rb->size != rb_const.size || rb->buf_max != rb_const.buf_max ||
	    rb->iov != rb_const.iov || rb->iov_count != rb_const.iov_count ||
	    rb->min_block_size != rb_const.min_block_size || rb->iov_size != rb_const.iov_size) {
		FAIL("ring-header-modified", "a constant field of r_buf_t changed");
		return (1);
	}
	if (rb->wpos > rb->size || rb->iov_index >= J_ne || rb->iov_index_max >= J_ne || rb->flags > 0xFF) {
		FAIL("ring-state-out-of-range", "wpos=%zu iov_index=%zu iov_index_max=%zu flags=%x (size %zu, table entries expected < %zu)",
		    rb->wpos, rb->iov_index, rb->iov_index_max, rb->flags, rb->size, J_ne);
		return (1);
	}
	memset(k, 0, KEYSZ);
	k[0] = (uint8_t)rb->wpos;
	k[1] = (uint8_t)rb->iov_index;
	k[2] = (uint8_t)rb->iov_index_max;
	k[3] = (uint8_t)rb->flags;
	memcpy(k + 4, &rb->round_num, 8);
	o = K_HDR;
	for (i = 0; i < rb->iov_count; i ++) {
		iovec_p e = &rb->iov[i];
		if (i >= J_ne) {
			if (NULL != e->iov_base || 0 != e->iov_len) {
				FAIL("block-table-overrun", "entry %zu of the block table is in use (ring %zu / min block %zu)",
				    i, rb->size, rb->min_block_size);
				return (1);
			}
			continue;
		}
		if (NULL == e->iov_base) {
			if (0 != e->iov_len) {
				FAIL("block-outside-storage", "table entry %zu: NULL base with length %zu", i, e->iov_len);
				return (1);
			}
			k[o ++] = 0xFF;
			k[o ++] = 0;
			continue;
		}
		if (e->iov_base < rb->buf || e->iov_base > rb->buf_max ||
		    e->iov_len > (size_t)(rb->buf_max - e->iov_base)) {
			FAIL("block-outside-storage", "table entry %zu = [%td,+%zu), ring size %zu",
			    i, e->iov_base - rb->buf, e->iov_len, rb->size);
			return (1);
		}
		k[o ++] = (uint8_t)(e->iov_base - rb->buf);
		k[o ++] = (uint8_t)e->iov_len;
	}
	for (i = 0; i < (size_t)J_nr; i ++) {
		if (M.rp[i].iov_index > 0xFF || M.rp[i].iov_off > 0xFF || M.e[i] > M.W || M.W - M.e[i] > 0xFFF0) {
			FAIL("harness:cursor-unencodable", "reader %zu: index %zu off %zu", i, M.rp[i].iov_index, M.rp[i].iov_off);
			return (1);
		}
		k[o] = (uint8_t)M.rp[i].iov_index;
		k[o + 1] = (uint8_t)M.rp[i].iov_off;
		memcpy(k + o + 2, &M.rp[i].round_num, 8);
		put16(k + o + 10, (uint16_t)(M.W - M.e[i]));
		k[o + 12] = (uint8_t)(M.e_known[i] | (M.dropflag[i] << 1) | (M.skiplag[i] << 2));
		o += K_RD;
	}
	for (i = 0; i < J_size; i ++, o += 2) {
		if (SH_NEVER == M.shadow[i]) {
			put16(k + o, 0xFFFF);
		} else if (SH_GARB == M.shadow[i]) {
			put16(k + o, 0xFFFE);
		} else {
			rel = M.W - M.shadow[i];
			if (rel > 0xFFF0) {
				FAIL("harness:position-unencodable", "ring byte %zu is %llu bytes old", i, (unsigned long long)rel);
				return (1);
			}
			put16(k + o, (uint16_t)rel);
		}
	}
	return (0);
}

static void
decode(const uint8_t *k, uint64_t W) {
	size_t i, o = K_HDR;
	uint16_t rel;

	*rb = rb_const;
	rb->wpos = k[0];
	rb->iov_index = k[1];
	rb->iov_index_max = k[2];
	rb->flags = k[3];
	memcpy(&rb->round_num, k + 4, 8);
	memset(rb->iov, 0, sizeof(iovec_t) * rb->iov_count);
	for (i = 0; i < J_ne; i ++, o += 2) {
		rb->iov[i].iov_base = (0xFF == k[o]) ? NULL : (rb->buf + k[o]);
		rb->iov[i].iov_len = k[o + 1];
	}
	memset(&M, 0, sizeof(M));
	M.W = W;
	for (i = 0; i < (size_t)J_nr; i ++, o += K_RD) {
		M.rp[i].iov_index = k[o];
		M.rp[i].iov_off = k[o + 1];
		memcpy(&M.rp[i].round_num, k + o + 2, 8);
		M.e[i] = W - get16(k + o + 10);
		M.e_known[i] = k[o + 12] & 1;
		M.dropflag[i] = (k[o + 12] >> 1) & 1;
		M.skiplag[i] = (k[o + 12] >> 2) & 3;
	}
	for (i = 0; i < J_size; i ++, o += 2) {
		rel = get16(k + o);
		if (0xFFFF == rel) {
			M.shadow[i] = SH_NEVER;
			rb->buf[i] = 0;
		} else if (0xFFFE == rel) {
			M.shadow[i] = SH_GARB;
			rb->buf[i] = 0xFF;
		} else {
			M.shadow[i] = W - rel;
			rb->buf[i] = (uint8_t)(M.shadow[i] % 251);
		}
	}
}

/* ------------------------------------------------------------------ state store */
static uint8_t	*st_keys;
static uint64_t	*st_W;
static size_t	st_n, st_cap;
static uint64_t	*ht;		/* (hash & 0xffffffff00000000) | (id + 1); 0 = empty */
static size_t	ht_size;	/* power of two */
static size_t	KEYW;		/* key size in 64-bit words (keys are zero padded to KEYW * 8) */

static uint64_t
key_hash(const uint8_t *k) {
	uint64_t h = 0x9E3779B97F4A7C15ull, w;
	size_t i;
	for (i = 0; i < KEYW; i ++) {
		memcpy(&w, k + 8 * i, 8);
		h = (h ^ w) * 0xff51afd7ed558ccdull;
		h ^= h >> 32;
	}
	h *= 0xc4ceb9fe1a85ec53ull;
	return (h ^ (h >> 29));
}

/* Returns 1 and the new id when the key was not known. */
static int
store_insert(const uint8_t *k, uint64_t W, uint32_t parent, uint16_t op, uint32_t *id_ret) {
	size_t pos, i, p2;
	uint64_t h = key_hash(k), tag = h & 0xffffffff00000000ull, h2;

	pos = (size_t)h & (ht_size - 1);
	while (0 != ht[pos]) {
		if ((ht[pos] & 0xffffffff00000000ull) == tag &&
		    0 == memcmp(st_keys + (size_t)((uint32_t)ht[pos] - 1) * KEYSZ, k, KEYSZ)) {
			*id_ret = (uint32_t)ht[pos] - 1;
			return (0);
		}
		pos = (pos + 1) & (ht_size - 1);
	}
	if (st_n == st_cap) {
		st_cap *= 2;
		st_keys = (uint8_t *)realloc(st_keys, st_cap * KEYSZ);
		st_W = (uint64_t *)realloc(st_W, st_cap * sizeof(uint64_t));
		st_parent = (uint32_t *)realloc(st_parent, st_cap * sizeof(uint32_t));
		st_op = (uint16_t *)realloc(st_op, st_cap * sizeof(uint16_t));
		if (NULL == st_keys || NULL == st_W || NULL == st_parent || NULL == st_op) {
			fprintf(stderr, "out of memory\n");
			exit(3);
		}
	}
	memcpy(st_keys + st_n * KEYSZ, k, KEYSZ);
	st_W[st_n] = W;
	st_parent[st_n] = parent;
	st_op[st_n] = op;
	*id_ret = (uint32_t)st_n;
	st_n ++;
	ht[pos] = tag | (uint64_t)st_n;	/* id + 1 */
	if (st_n * 2 > ht_size) {
		free(ht);
		ht_size *= 4;
		ht = (uint64_t *)calloc(ht_size, sizeof(uint64_t));
		if (NULL == ht) {
			fprintf(stderr, "out of memory\n");
			exit(3);
		}
		for (i = 0; i < st_n; i ++) {
			h2 = key_hash(st_keys + i * KEYSZ);
			p2 = (size_t)h2 & (ht_size - 1);
			while (0 != ht[p2])
				p2 = (p2 + 1) & (ht_size - 1);
			ht[p2] = (h2 & 0xffffffff00000000ull) | (uint64_t)(i + 1);
		}
	}
	return (1);
}

/* ------------------------------------------------------------------ observers (no state change) */
static int
calc_unsafe(const r_buf_rpos_t *a, const r_buf_rpos_t *b) {
	const r_buf_rpos_t *lo = (a->round_num < b->round_num) ? a : b;	/* r_buf_rpos_cmp() orders by the raw round number */

	/* r_buf_rpos_calc_size() sums (1 + iov_index_max - lo->iov_index) table entries: wraps below zero here. */
	return (a->round_num != b->round_num && lo->iov_index > rb->iov_index_max + 1);
}

static void
observe(int last_level) {
	int i, cf;
	iovec_t out[64];
	r_buf_rpos_t a, b, s;
	size_t av, dropa, dropb, sz, n, total, t2, ds[3];
	uint64_t q;
	model_t keep;

	c_obs ++;
	for (i = 0; i < J_nr; i ++) {
		/* The states of the last level get no outgoing transitions: evaluate the full read here. */
		if (last_level) {
			begin("r_buf_data_get");
			keep = M;
			(void)do_get(i, 2, &total, &q);
			M = keep;
		}
		begin("r_buf_data_avail_size");
		a = M.rp[i];
		b = M.rp[i];
		dropa = dropb = 0;
		av = r_buf_data_avail_size(rb, &a, &dropa);
		n = r_buf_data_get(rb, &b, BIGREAD, out, rb->iov_count, &dropb, &sz);
		g_mute = 1;
		if (n <= rb->iov_count && 0 == check_stream("", out, n, &total, &q)) {
			g_mute = 0;
			/* "the available-size query equals the bytes a full read would return" */
			if (av != total) {
				FAIL("avail-ne-full-read", "reader %d: avail_size = %zu, a full read hands out %zu bytes (data_size_ret %zu)",
				    i, av, total, sz);
			} else if (0 != total) {
				NONTRIVIAL();
			}
			begin("r_buf_rpos_check_fast");
			s = M.rp[i];
			cf = r_buf_rpos_check_fast(rb, &s);
			if (0 != memcmp(&s, &M.rp[i], sizeof(s)))
				FAIL("check-fast-modified-cursor", "reader %d", i);
			if (0 != cf && 0 != dropa)
				FAIL("check-fast-ok-but-drop-reported", "reader %d: check_fast = %d, avail_size reported drop %zu", i, cf, dropa);
			else if (0 == cf && 0 != total)
				FAIL("check-fast-lost-but-data-returned", "reader %d: check_fast = 0, a full read hands out %zu bytes", i, total);
			else
				NONTRIVIAL();
		}
		g_mute = 0;
	}
	/* r_buf_rpos_calc_size: no oracle (the property does not define this size).  It is skipped where the
	 * cursor of the lower round sits above iov_index_max + 1: r_buf_rpos_check_fast() accepts that cursor
	 * but the size computation then runs off the block table (see NOTES.md, out-of-scope observation). */
	if (2 == J_nr && calc_unsafe(&M.rp[0], &M.rp[1])) {
		c_calc_skipped ++;
	} else if (2 == J_nr) {
		begin("r_buf_rpos_calc_size");
		a = M.rp[0];
		b = M.rp[1];
		ds[0] = r_buf_rpos_calc_size(rb, &a, &b);
		ds[1] = r_buf_rpos_calc_size(rb, &b, &a);
		ds[2] = r_buf_rpos_calc_size(rb, &a, &a);
		vh_outcome(ds, sizeof(ds));
		if (0 != memcmp(&a, &M.rp[0], sizeof(a)) || 0 != memcmp(&b, &M.rp[1], sizeof(b)))
			FAIL("calc-size-modified-cursor", "r_buf_rpos_calc_size changed a cursor");
		else
			NONTRIVIAL();
	}
	ds[0] = 0;
	ds[1] = rb->size / 2;
	ds[2] = rb->size;
	for (i = 0; i < 3; i ++) {
		begin("r_buf_rpos_init");
		memset(&s, 0xA5, sizeof(s));
		if (0 != r_buf_rpos_init(rb, &s, ds[i])) {
			FAIL("init-failed", "r_buf_rpos_init(data_size=%zu) returned an error", ds[i]);
			continue;
		}
		c_init_reads ++;
		if (0 == check_fresh_cursor(&s, &q, &t2) && 0 != t2)
			NONTRIVIAL();
	}
}

/* ------------------------------------------------------------------ seeds */
static wop_t	seed_wop;

static void
ring_new(void) {
	size_t page = (size_t)sysconf(_SC_PAGE_SIZE);

	rb = r_buf_alloc((uintptr_t)-1, J_size, J_min);
	if (NULL == rb) {
		fprintf(stderr, "r_buf_alloc failed\n");
		exit(3);
	}
	rb_const = *rb;
	/* The two areas are mmap'ed (invisible to ASan): poison what lies behind the storage and behind
	 * the last table entry inside their pages, so that an overrun by the library is reported. */
	if (rb->size < page)
		VH_POISON(rb->buf + rb->size, page - rb->size);
	if (sizeof(iovec_t) * rb->iov_count < rb->iov_size)
		VH_POISON((uint8_t *)rb->iov + sizeof(iovec_t) * rb->iov_count, rb->iov_size - sizeof(iovec_t) * rb->iov_count);
}

static void
ring_free(void) {
	size_t page = (size_t)sysconf(_SC_PAGE_SIZE);

	if (rb_const.size < page)
		VH_UNPOISON(rb_const.buf + rb_const.size, page - rb_const.size);
	VH_UNPOISON((uint8_t *)rb_const.iov, rb_const.iov_size);
	*rb = rb_const;
	r_buf_free(rb);
}

static int
seed_cycle(uint8_t *key) {	/* write min-sized blocks, all readers consume everything, until the ring wraps */
	size_t r0 = rb->round_num, total;
	uint64_t q;
	int i, guard = 0;

	do {
		if (0 != do_write(&seed_wop) || ++ guard > 64)
			return (1);
		for (i = 0; i < J_nr; i ++) {
			begin("r_buf_data_get");
			if (0 != do_get(i, 2, &total, &q))
				return (1);
			do_advance(i, total);
		}
	} while (rb->round_num == r0);
	return (encode(key));
}

/* Builds the seed state in the live objects.  Returns 0 on success. */
static int
seed_build(void) {
	uint8_t k1[256], k2[256];
	size_t r1, r2, delta, o;
	int i;

	memset(&M, 0, sizeof(M));
	for (i = 0; i < MAXSIZE; i ++)
		M.shadow[i] = SH_NEVER;
	for (i = 0; i < J_nr; i ++) {
		if (0 != r_buf_rpos_init(rb, &M.rp[i], 0))	/* readers join the empty ring through the API */
			return (1);
		M.e_known[i] = 1;
	}
	if (0 == J_seed)
		return (0);
	/* One full cycle, then check on the real code that the next cycle reproduces the same
	 * state with every round number one higher: the state shifted by any number of rounds
	 * is then reachable by repeating the cycle, which is what the seed stands for. */
	seed_wop.m = seed_wop.k = (uint8_t)J_min;
	seed_wop.off = 0;
	seed_wop.style = (1 == J_style);
	if (0 != seed_cycle(k1))
		return (1);
	r1 = rb->round_num;
	if (0 != seed_cycle(k2))
		return (1);
	r2 = rb->round_num;
	if (r2 != r1 + 1)
		return (2);
	memcpy(k1 + 4, &r2, 8);
	for (i = 0, o = K_HDR + 2 * J_ne; i < J_nr; i ++, o += K_RD) {
		memcpy(&r1, k1 + o + 2, 8);
		r1 ++;
		memcpy(k1 + o + 2, &r1, 8);
	}
	if (0 != memcmp(k1, k2, KEYSZ))
		return (2);
	delta = ((1 == J_seed) ? (SIZE_MAX - 1) : SIZE_MAX) - rb->round_num;
	rb->round_num += delta;
	for (i = 0; i < J_nr; i ++)
		M.rp[i].round_num += delta;
	return (0);
}

static void
build_wops(void) {
	size_t k, ks[MAXSIZE + 1], nk = 0, i, m;
	int off, st, mm;

	if (J_kmode) {
		for (k = J_min; k <= J_size; k ++)
			ks[nk ++] = k;
	} else {
		size_t cand[4] = { J_min, J_min + 1, 2 * J_min, J_size };
		for (i = 0; i < 4; i ++) {
			size_t j, dup = 0;
			for (j = 0; j < nk; j ++)
				dup |= (ks[j] == cand[i]);
			if (0 == dup && cand[i] <= J_size)
				ks[nk ++] = cand[i];
		}
	}
	n_wops = 0;
	if (2 == J_mmode) {
		for (i = 0; i < 2; i ++) {
			wops[n_wops].m = (uint8_t)(i ? J_size : J_min);
			wops[n_wops].k = 0;
			wops[n_wops].off = 0;
			wops[n_wops].style = (1 == J_style);
			n_wops ++;
		}
	}
	for (i = 0; i < nk; i ++) {
		for (off = 0; off < 2; off ++) {
			if (ks[i] + (size_t)off > J_size)
				continue;
			for (mm = 0; mm <= (J_mmode ? 1 : 0); mm ++) {
				m = mm ? J_size : (ks[i] + (size_t)off);
				if (mm && m == ks[i] + (size_t)off)
					continue;
				for (st = 0; st < 2; st ++) {
					if ((0 == J_style && 1 == st) || (1 == J_style && 0 == st))
						continue;
					wops[n_wops].m = (uint8_t)m;
					wops[n_wops].k = (uint8_t)ks[i];
					wops[n_wops].off = (uint8_t)off;
					wops[n_wops].style = (uint8_t)st;
					n_wops ++;
				}
			}
		}
	}
}

/* ------------------------------------------------------------------ BFS */
static r_buf_t	c_hdr;
static iovec_t	c_iov[64];
static uint8_t	c_buf[MAXSIZE];
static model_t	c_M;

static void
cache_save(void) {
	c_hdr = *rb;
	memcpy(c_iov, rb->iov, sizeof(iovec_t) * rb->iov_count);
	memcpy(c_buf, rb->buf, J_size);
	c_M = M;
}

static void
cache_restore(void) {
	*rb = c_hdr;
	memcpy(rb->iov, c_iov, sizeof(iovec_t) * rb->iov_count);
	memcpy(rb->buf, c_buf, J_size);
	M = c_M;
}

static int	stop_cap;

/* The live objects hold the successor of (parent, op). */
static void
successor(uint32_t parent, uint16_t op, int last_level) {
	uint8_t key[256];
	uint32_t id;

	c_trans ++;
	if (0 != g_viol || 0 != encode(key)) {
		c_pruned ++;
		return;
	}
	if (st_n >= J_maxstates) {
		stop_cap = 1;
		return;
	}
	if (store_insert(key, M.W, parent, op, &id)) {
		c_states ++;
		observe(last_level);
	}
}

static void
expand(uint32_t id, int last_level) {
	int i, ms, as, w;
	size_t total, amount;
	uint64_t q;
	model_t after;

	decode(st_keys + (size_t)id * KEYSZ, st_W[id]);
	cache_save();
	d_parent = id;
	d_nops = 1;
	for (i = 0; i < J_nr; i ++) {
		for (ms = 0; ms < 3; ms ++) {
			M = c_M;	/* readers never modify the ring */
			g_viol = 0;
			d_ops[0] = OP_R(i, ms, 0);
			begin("r_buf_data_get");
			if (0 != do_get(i, ms, &total, &q)) {
				c_trans ++;
				c_pruned ++;
				continue;
			}
			if (0 != total)
				NONTRIVIAL();
			after = M;
			for (as = 0; as < 3; as ++) {
				amount = (0 == as) ? total : ((1 == as) ? 1 : 0);
				if ((1 == as && total <= 1) || (2 == as && 0 == total))
					continue;	/* same as "all" */
				M = after;
				g_viol = 0;
				d_ops[0] = OP_R(i, ms, as);
				if (0 != amount) {
					begin("r_buf_rpos_inc");
					do_advance(i, amount);
					NONTRIVIAL();
				}
				successor(id, d_ops[0], last_level);
			}
		}
	}
	for (w = 0; w < n_wops; w ++) {
		cache_restore();
		g_viol = 0;
		d_ops[0] = (uint16_t)w;
		if (0 != do_write(&wops[w])) {
			c_trans ++;
			if (g_viol)
				c_pruned ++;
			continue;
		}
		successor(id, (uint16_t)w, last_level);
	}
}

/* Snapshot soundness: re-execute the history of a stored state on a brand-new ring using
 * only the API (no decode) and compare the resulting snapshot with the stored one. */
static int
crosscheck(uint32_t id) {
	uint16_t stack[MAXDEPTH + 2];
	uint8_t key[256];
	int n = 0, i, rc = 0;
	uint32_t s;
	size_t total;
	uint64_t q;
	r_buf_p keep = rb;
	r_buf_t keep_const = rb_const;

	for (s = id; st_parent[s] != UINT32_MAX; s = st_parent[s])
		stack[n ++] = st_op[s];
	ring_new();
	g_quiet = 1;
	g_viol = 0;
	if (0 != seed_build())
		rc = 1;
	for (i = n - 1; i >= 0 && 0 == rc; i --) {
		uint16_t op = stack[i];
		if (op & 0x8000) {
			int as = op & 3;
			if (0 != do_get((op >> 8) & 1, (op >> 4) & 3, &total, &q))
				rc = 1;
			do_advance((op >> 8) & 1, (0 == as) ? total : ((1 == as) ? 1 : 0));
		} else if (0 != do_write(&wops[op])) {
			rc = 1;
		}
	}
	if (0 == rc && (0 != encode(key) || 0 != memcmp(key, st_keys + (size_t)id * KEYSZ, KEYSZ)))
		rc = 1;
	g_quiet = 0;
	ring_free();
	rb = keep;
	rb_const = keep_const;
	return (rc);
}

static void
note(const char *k, uint64_t v) {
	printf("NOTE\t%s=%llu\n", k, (unsigned long long)v);
}

static int
run_bfs(void) {
	uint8_t key[256];
	uint32_t id;
	size_t lo, hi, s, step;
	int depth, rc, completed = 0;
	uint64_t cc_bad = 0;

	st_cap = 1 << 16;
	st_keys = (uint8_t *)malloc(st_cap * KEYSZ);
	st_W = (uint64_t *)malloc(st_cap * sizeof(uint64_t));
	st_parent = (uint32_t *)malloc(st_cap * sizeof(uint32_t));
	st_op = (uint16_t *)malloc(st_cap * sizeof(uint16_t));
	ht_size = 1 << 18;
	ht = (uint64_t *)calloc(ht_size, sizeof(uint64_t));

	ring_new();
	rc = seed_build();
	if (0 != rc || 0 != encode(key)) {
		printf("NOTE\tseed_unusable=%d\n", rc);	/* reported by run.py as a harness error */
		return (vh_finish());
	}
	store_insert(key, M.W, UINT32_MAX, 0, &id);
	c_states = 1;
	d_parent = 0;
	d_nops = 0;
	observe(0);
	lo = 0;
	hi = 1;
	for (depth = 0; depth < J_depth && 0 == stop_cap; depth ++) {
		for (s = lo; s < hi && 0 == stop_cap; s ++)
			expand((uint32_t)s, 0);
		if (0 == stop_cap)
			completed = depth + 1;
		printf("NOTE\tlevel_%d_states=%zu\n", depth + 1, st_n - hi);
		lo = hi;
		hi = st_n;
		if (lo == hi)
			break;
		if (st_n >= J_target)
			break;	/* deterministic: depends on the state count only */
	}
	/* The states of the last level have no outgoing transitions: evaluate the full read of every
	 * reader there (exactly the R_i(inf) transition, without a successor). */
	for (s = lo; s < hi && lo != hi; s ++) {
		int i;
		size_t total;
		uint64_t q;
		decode(st_keys + s * KEYSZ, st_W[s]);
		d_parent = (uint32_t)s;
		d_nops = 0;
		for (i = 0; i < J_nr; i ++) {
			model_t keep = M;
			g_viol = 0;
			begin("r_buf_data_get");
			c_trans ++;
			(void)do_get(i, 2, &total, &q);
			M = keep;
		}
	}
	note("states", c_states);
	note("transitions", c_trans);
	note("pruned_after_violation", c_pruned);
	note("depth_completed", (uint64_t)completed);
	note("frontier_empty", (lo == hi) ? 1 : 0);
	note("state_cap_hit", (uint64_t)stop_cap);
	note("ring_wraps", c_wraps);
	note("round_counter_wraps", c_round_wraps);
	note("offset_commits", c_frag_commits);
	note("aborted_writes", c_aborted_writes);
	note("deliveries", c_deliveries);
	note("drop_reports", c_drop_reports);
	note("drop_exact", c_drop_exact);
	note("drop_over", c_drop_over);
	note("drop_under", c_drop_under);
	note("drop_unset", c_drop_unset);
	note("drop_without_resync", c_slow_reader_noresync);
	note("skips_with_report", c_skips_reported);
	note("data_size_ret_ne_regions", c_sizeret_mismatch);
	note("delivered_more_than_asked", c_overdeliver);
	note("set2_rpos_not_at_block", c_set2_rpos_mismatch);
	note("get_returned_too_little", c_get_short);
	note("observed_states", c_obs);
	note("calc_size_skipped_unsafe_cursor", c_calc_skipped);
	/* cross-check a deterministic sample of snapshots against API-only history replay */
	step = (st_n / 64) + 1;
	for (s = 0; s < st_n; s += step) {
		c_crosschecks ++;
		if (0 != crosscheck((uint32_t)s))
			cc_bad ++;
	}
	note("snapshot_crosschecks", c_crosschecks);
	note("snapshot_crosscheck_failures", cc_bad);
	return (vh_finish());
}

/* ------------------------------------------------------------------ trace replay (fresh ring, API only) */
static int
run_trace(char *ops) {
	char *tok, *save = NULL;
	unsigned a, b, c;
	char s1[16], s2[16];
	int rc, i;
	size_t total;
	uint64_t q;
	uint8_t key[256];

	ring_new();
	t_nhist = 0;
	rc = seed_build();
	if (0 != rc) {
		printf("NOTE\tseed_unusable=%d\n", rc);
		return (vh_finish());
	}
	observe(1);
	for (tok = strtok_r(ops, ",", &save); NULL != tok; tok = strtok_r(NULL, ",", &save)) {
		g_viol = 0;
		if ('W' == tok[0] && 4 == sscanf(tok, "W%u.%u.%u.%15s", &a, &b, &c, s1)) {
			wops[n_wops].m = (uint8_t)a;
			wops[n_wops].k = (uint8_t)b;
			wops[n_wops].off = (uint8_t)c;
			wops[n_wops].style = (0 == strcmp(s1, "set2"));
			t_hist[t_nhist ++] = (uint16_t)n_wops;
			if (a > J_size || (0 != b && b < J_min) || b + c > a || c > 1 || (0 == b && 0 != c)) {
				printf("NOTE\tbad_trace_op=%s\n", tok);
				break;
			}
			rc = do_write(&wops[n_wops]);
			n_wops ++;
		} else if ('R' == tok[0] && 3 == sscanf(tok, "R%u.%15[^.].%15s", &a, s1, s2)) {
			int ms = (0 == strcmp(s1, "1")) ? 0 : ((0 == strcmp(s1, "3")) ? 1 : 2);
			int as = (0 == strcmp(s2, "all")) ? 0 : ((0 == strcmp(s2, "one")) ? 1 : 2);
			t_hist[t_nhist ++] = OP_R(a & 1, ms, as);
			begin("r_buf_data_get");
			rc = do_get((int)(a & 1), ms, &total, &q);
			if (0 == rc) {
				begin("r_buf_rpos_inc");
				do_advance((int)(a & 1), (0 == as) ? total : ((1 == as && total > 0) ? 1 : 0));
			}
		} else {
			printf("NOTE\tbad_trace_op=%s\n", tok);
			break;
		}
		if (0 != rc || 0 != g_viol || 0 != encode(key))
			break;
		observe(1);
		if (vh_verbose) {
			printf("NOTE\tafter %s: wpos=%zu idx=%zu max=%zu round=%zu flags=%x W=%llu", tok, rb->wpos,
			    rb->iov_index, rb->iov_index_max, rb->round_num, rb->flags, (unsigned long long)M.W);
			for (i = 0; i < J_nr; i ++)
				printf(" r%d={%zu,%zu,%zu e=%llu d=%d}", i, M.rp[i].iov_index, M.rp[i].iov_off,
				    M.rp[i].round_num, (unsigned long long)M.e[i], M.dropflag[i]);
			printf("\n");
		}
	}
	return (vh_finish());
}

int
main(int argc, char **argv) {
	int i;
	char *job = NULL, *trace = NULL, *semi;
	unsigned v[8] = { 0 };

	vh_init(argc, argv);
	vh_set_describer(describer);
	for (i = 1; i < argc; i ++) {
		if (0 == strcmp(argv[i], "--job") && i + 1 < argc)
			job = argv[++ i];
		else if (0 == strcmp(argv[i], "--trace") && i + 1 < argc)
			trace = strdup(argv[++ i]);
		else if (0 == strcmp(argv[i], "--maxstates") && i + 1 < argc)
			J_maxstates = strtoull(argv[++ i], NULL, 10);
		else if (0 == strcmp(argv[i], "--target") && i + 1 < argc)
			J_target = strtoull(argv[++ i], NULL, 10);
	}
	if (NULL != trace) {
		semi = strchr(trace, ';');
		if (NULL == semi || 5 != sscanf(trace, "%u,%u,%u,%u,%u", &v[0], &v[1], &v[2], &v[3], &v[4])) {
			fprintf(stderr, "bad --trace\n");
			return (3);
		}
		vh_verbose = 1;
	} else if (NULL == job || 8 != sscanf(job, "%u,%u,%u,%u,%u,%u,%u,%u",
	    &v[0], &v[1], &v[2], &v[3], &v[4], &v[5], &v[6], &v[7])) {
		fprintf(stderr, "usage: h_c19 --job size,min,style,seed,nr,depth,kmode,mmode | --trace \"size,min,style,seed,nr;ops\"\n");
		return (3);
	}
	J_size = v[0]; J_min = v[1]; J_style = (int)v[2]; J_seed = (int)v[3]; J_nr = (int)v[4];
	J_depth = (int)v[5]; J_kmode = (int)v[6]; J_mmode = (int)v[7];
	if (J_size < 2 || J_size > MAXSIZE || J_min < 1 || J_min > J_size || J_nr < 1 || J_nr > 2 ||
	    J_depth > MAXDEPTH || J_style > 2 || J_seed > 2) {
		fprintf(stderr, "job out of range\n");
		return (3);
	}
	J_ne = (J_size / J_min) + 3;
	if (J_ne > MAXNE)
		return (3);
	KEYSZ = K_HDR + 2 * J_ne + K_RD * (size_t)J_nr + 2 * J_size;
	KEYW = (KEYSZ + 7) / 8;
	KEYSZ = KEYW * 8;	/* zero padded */
	if (NULL != trace)
		return (run_trace(semi + 1));
	build_wops();
	return (run_bfs());
}
