/* C19, large geometries: the BFS of h_c19.c works on rings of 8..16 bytes; "all ring sizes and minimum block sizes"
 * also means rings whose block table spans several pages.  Here deterministic long histories run on large rings
 * (one writer, block lengths cycling through [min, min + spread], three readers with different lags that never fall
 * a whole ring behind) against a byte-stream model: every byte handed to a reader is the byte written at that stream
 * position, regions lie inside the storage, avail == what a full read returns, no drop is reported.
 * Every mapping the library makes gets an inaccessible page behind it (wrapped mmap), so a table or storage access
 * past its mapping is a fault at the access. */
#define _GNU_SOURCE
#include <errno.h>
#include <setjmp.h>
#include <signal.h>
#include <stdint.h>
#include <string.h>
#include <sys/mman.h>
#include <sys/uio.h>
#include <unistd.h>
#include "vh.h"
#include "utils/ring_buffer.h"

void	*__real_mmap(void *, size_t, int, int, int, off_t);
int	__real_munmap(void *, size_t);
static long pgsz;
void *
__wrap_mmap(void *addr, size_t len, int prot, int flags, int fd, off_t off) {
	size_t rounded = (len + (size_t)pgsz - 1) & ~((size_t)pgsz - 1);
	uint8_t *p = (uint8_t *)__real_mmap(addr, rounded + (size_t)pgsz, prot, flags, fd, off);
	if (MAP_FAILED == (void *)p) return (MAP_FAILED);
	mprotect(p + rounded, (size_t)pgsz, PROT_NONE);
	return (p);
}
int
__wrap_munmap(void *addr, size_t len) {
	size_t rounded = (len + (size_t)pgsz - 1) & ~((size_t)pgsz - 1);
	return (__real_munmap(addr, rounded + (size_t)pgsz));
}

static sigjmp_buf jb;
static volatile sig_atomic_t in_lib;
static void on_segv(int sig) { (void)sig; if (in_lib) siglongjmp(jb, 1); _exit(70); }

static uint8_t pat(uint64_t pos) { return ((uint8_t)(pos * 131u + (pos >> 8) * 17u + 5u)); }

#define NR 3
static void
one_geometry(size_t size, size_t minb, size_t spread, int use_set2, int steps) {
	r_buf_p rb; r_buf_rpos_t rp[NR]; uint64_t written = 0, consumed[NR] = { 0, 0, 0 };
	struct iovec *iov; size_t iovn, n, i, got, drop, dsz, av, want, len, k; uint8_t *p; int step, r, bad = 0;
	static const size_t lagmax_div[NR] = { 1000000, 4, 2 };	/* reader r lets size/div bytes pile up before it reads */

	if (!vh_begin("r_buf_large_geometry")) return;
	vh_desc("ring=%zu min=%zu block lengths %zu..%zu commit=%s %d steps", size, minb, minb, minb + spread, use_set2 ? "set2" : "set", steps);
	if (sigsetjmp(jb, 1)) { in_lib = 0; vh_fail("access-outside-mapping", "the library touched memory behind one of its own mappings (table or storage)"); return; }
	in_lib = 1;
	rb = r_buf_alloc((uintptr_t)-1, size, minb);
	in_lib = 0;
	if (NULL == rb) { vh_fail("harness", "r_buf_alloc"); return; }
	iovn = size / minb + 64; iov = (struct iovec *)calloc(iovn, sizeof(*iov));
	for (r = 0; r < NR; r ++) memset(&rp[r], 0, sizeof(rp[r]));
	for (step = 0; step < steps && !bad; step ++) {
		len = minb + ((size_t)step * 7u) % (spread + 1);
		in_lib = 1;
		got = r_buf_wbuf_get(rb, len, &p);
		in_lib = 0;
		if (got < len || p < rb->buf || p + len > rb->buf + rb->size) { vh_fail("writer-region-outside-storage", "step %d: r_buf_wbuf_get(%zu) = %zu bytes at offset %td, ring %zu", step, len, got, p - rb->buf, size); bad = 1; break; }
		for (i = 0; i < len; i ++) p[i] = pat(written + i);
		in_lib = 1;
		r = use_set2 ? r_buf_wbuf_set2(rb, p, len, NULL) : r_buf_wbuf_set(rb, 0, len);
		in_lib = 0;
		if (0 != r) { vh_fail("commit-refused", "step %d: commit of %zu bytes refused rc=%d", step, len, r); bad = 1; break; }
		if (0 == step) { for (r = 0; r < NR; r ++) { in_lib = 1; r_buf_rpos_init(rb, &rp[r], len); in_lib = 0; } }
		written += len;
		for (r = 0; r < NR && !bad; r ++) {
			want = (size_t)(written - consumed[r]);
			if (want < size / lagmax_div[r] && step + 1 < steps) continue;	/* let it pile up */
			in_lib = 1;
			drop = 0; av = r_buf_data_avail_size(rb, &rp[r], &drop);
			in_lib = 0;
			if (0 != drop) { vh_fail("drop-reported-without-loss", "step %d reader %d: drop %zu although it never fell a ring behind", step, r, drop); bad = 1; break; }
			if (av != want) { vh_fail("avail-ne-unread", "step %d reader %d: avail_size = %zu, %zu bytes were written and not yet consumed", step, r, av, want); bad = 1; break; }
			in_lib = 1;
			drop = 0; dsz = 0; n = r_buf_data_get(rb, &rp[r], (size_t)1 << 30, iov, iovn, &drop, &dsz);
			in_lib = 0;
			got = 0;
			for (i = 0; i < n && !bad; i ++) {
				uint8_t *b = (uint8_t *)iov[i].iov_base;
				if (b < rb->buf || b + iov[i].iov_len > rb->buf + rb->size) { vh_fail("region-outside-storage", "step %d reader %d: region %zu at offset %td length %zu, ring %zu", step, r, i, b - rb->buf, iov[i].iov_len, size); bad = 1; break; }
				for (k = 0; k < iov[i].iov_len; k ++) {
					if (b[k] != pat(consumed[r] + got + k)) { vh_fail("out-of-order", "step %d reader %d: byte %zu of the read is not stream byte %llu", step, r, got + k, (unsigned long long)(consumed[r] + got + k)); bad = 1; break; }
				}
				got += iov[i].iov_len;
			}
			if (bad) break;
			if (got != want) { vh_fail("avail-ne-full-read", "step %d reader %d: a full read returned %zu bytes, %zu unread", step, r, got, want); bad = 1; break; }
			/* advance by an arbitrary part (reader 0: everything) */
			k = (0 == r) ? got : (got - got / 3);
			in_lib = 1;
			r_buf_rpos_inc(rb, &rp[r], k);
			in_lib = 0;
			consumed[r] += k;
		}
	}
	if (!bad) vh_nontrivial();
	free(iov);
	r_buf_free(rb);
	vh_outcome(&written, sizeof(written));
}

int
main(int argc, char **argv) {
	struct sigaction sa;
	static const size_t geo[][3] = { { 4096, 16, 0 }, { 4096, 16, 4 }, { 10000, 10, 2 }, { 8192, 8, 1 }, { 65536, 16, 4 }, { 65536, 188, 0 }, { 4099, 3, 2 }, { 3000, 1, 3 } };
	size_t g; int s2;
	vh_init(argc, argv);
	pgsz = sysconf(_SC_PAGE_SIZE);
	memset(&sa, 0, sizeof(sa)); sa.sa_handler = on_segv; sigaction(SIGSEGV, &sa, NULL); sigaction(SIGBUS, &sa, NULL);
	for (g = 0; g < sizeof(geo) / sizeof(geo[0]); g ++) for (s2 = 0; s2 < 2; s2 ++)
		one_geometry(geo[g][0], geo[g][1], geo[g][2], s2, vh_thorough ? 60000 : 6000);
	return (vh_finish());
}
