/*
 * C07 - HMAC over every hash equals RFC 2104 for every key length, message and chunking; the keyed
 * pad is wiped by hmac_*_final.
 *
 * For each of the 8 hash variants, each block-transform implementation the build contains (forced
 * in the context right after hmac_*_init, the way the library's own self test forces them) and
 * EVERY key length k = 0 .. 3 blocks+1 (key = first k bytes of a fixed LFSR pattern, exact-size
 * heap copy):
 *
 *   hmac_*_final case   for every message length m in {0,1,B-1,B,B+1,2B}: MAC computed with one
 *                       update, with m one-byte updates (m <= B+1; quick: m = 1, B+1) and with empty|B-1|empty|rest
 *                       updates must equal the reference; afterwards the keyed pad and the
 *                       sensitive fields of the hash context are zero.
 *   one-shot cases      hmac_X(), X_hmac_get_digest(), X_hmac_get_digest_str() for the same m.
 *   hmac_*_update case  (key lengths of the BFS set, see H_LEVEL) partition-confluence exploration
 *                       exactly as in C04 on the HMAC context: states n = 0..L bytes absorbed,
 *                       transitions update(next c bytes at alignment a), canonical context (live
 *                       bytes incl. k_opad[0..B)) must equal that of the single-update context, with
 *                       dead bytes 0x00 and 0xA5; final from n in {0,1,B-1,B,B+1,2B} (<= L) under both.
 *
 * Reference: Python hmac table (expected_hmac.h) for MD5/SHA-x; RFC 2104 written out over the
 * reference Streebog (ref_streebog.c, anchored by the RFC 7836 vectors) for GOST.
 *
 * H_LEVEL  BFS key lengths                       L (states n = 0..L)               BFS alignments
 *   0      {0,B,3B+1}                            B+2                               {0,1,31}
 *   1      {0,1,B-1,B,B+1,2B,2B+1,3B,3B+1}       2B                                {0,1,31}
 *   2      every k = 0..3B+1                     2B for the nine above, else B+2   {0,1,3,4,8,16,31,32,63} for the nine, else {0,1,31}
 * Both dead-byte poisons for the first H_BOTH alignments (aligned + unaligned source), alternating after.
 */
#define H_WITH_HMAC 1
#include "hcommon.h"
#include "expected_hmac.h"

static const uint8_t *const exph_base[HALG_COUNT] = {
	(const uint8_t *)exph_md5, (const uint8_t *)exph_sha1, (const uint8_t *)exph_sha2_224,
	(const uint8_t *)exph_sha2_256, (const uint8_t *)exph_sha2_384, (const uint8_t *)exph_sha2_512,
	NULL, NULL
};

static void
msg_lens(const halg_t *A, size_t *ml) {
	ml[0] = 0; ml[1] = 1; ml[2] = A->B - 1; ml[3] = A->B; ml[4] = A->B + 1; ml[5] = 2 * A->B;
}

static void
expected(int ai, size_t k, int mi, uint8_t *out) {
	const halg_t *A = &halgs[ai];
	size_t ml[6];

	if (A->gost_bits) {
		msg_lens(A, ml);
		ref_hmac_streebog(A->gost_bits, ref_key, k, ref_hmsg, ml[mi], out);
	} else {
		memcpy(out, exph_base[ai] + ((k * 6) + (size_t)mi) * A->hs, A->hs);
	}
}

static int
is_boundary_key(const halg_t *A, size_t k) {
	size_t B = A->B;
	return (0 == k || 1 == k || B - 1 == k || B == k || B + 1 == k || 2 * B == k ||
	    2 * B + 1 == k || 3 * B == k || 3 * B + 1 == k);
}

/* alignments and message length of the BFS for this key length; 0 = no BFS */
static int
bfs_params(const halg_t *A, size_t k, const int **al, size_t *L) {
	size_t B = A->B;
#if H_LEVEL == 0
	if (0 == k || B == k || 3 * B + 1 == k) {
		(*al) = h_aligns_3;
		(*L) = B + 2;
		return (3);
	}
	return (0);
#elif H_LEVEL == 1
	if (is_boundary_key(A, k)) {
		(*al) = h_aligns_3;
		(*L) = 2 * B;
		return (3);
	}
	return (0);
#else
	if (is_boundary_key(A, k)) {
		(*al) = h_aligns_sub;
		(*L) = 2 * B;
		return (H_NSUB);
	}
	(*al) = h_aligns_3;
	(*L) = B + 2;
	return (3);
#endif
}

/* hmac_*_init on an exact-size key copy; the transform selector is forced afterwards */
static void *
make_h0(const halg_t *A, const char *var, size_t k) {
	void *base, *H0 = h_ctx_alloc(A->hctx_size);
	const uint8_t *key = h_src(ref_key, k, h_aligns_sub[k % H_NSUB], &base);

	A->h_init(key, k, H0);
	A->force(H0, var);		/* the hash context is the first member */
	free(base);
	return (H0);
}

/* final on W (consumed), compare with want, check wiping.  Returns 1 on failure. */
static int
do_final(const halg_t *A, void *W, const uint8_t *want, int with_size, const char *how) {
	uint8_t *dg = (uint8_t *)malloc(A->hs);	/* exact size */
	size_t dsz = 0xdead, nw;
	char hex[2 * 64 + 8];
	int bad = 0;

	memset(dg, 0xCC, A->hs);
	A->h_final(W, dg, with_size ? &dsz : NULL);
	h_transitions ++;
	if (0 != memcmp(dg, want, A->hs)) {
		vh_hex(hex, sizeof(hex), dg, A->hs);
		vh_fail("mac", "%s: got %s", how, hex);
		bad = 1;
	}
	if (A->has_size_out && with_size && dsz != A->hs) {
		vh_fail("mac-size", "%s: reported %zu", how, dsz);
		bad = 1;
	}
	nw = h_not_wiped(A, W, 1);
	if (0 != nw) {
		vh_fail((nw - 1 >= A->kopad_off) ? "k_opad-not-wiped" : "ctx-not-wiped",
		    "%s: context byte at offset %zu is 0x%02x after final", how, (nw - 1), ((uint8_t *)W)[nw - 1]);
		bad = 1;
	}
	vh_outcome(dg, A->hs);
	free(dg);
	return (bad);
}

/* incremental use for one key length: every message length, three ways of splitting */
static int
case_final(int ai, int v, size_t k) {
	const halg_t *A = &halgs[ai];
	void *H0 = make_h0(A, A->vname[v], k), *W, *base;
	uint8_t want[64];
	char how[128];
	size_t ml[6];
	int mi, bad = 0;

	msg_lens(A, ml);
	for (mi = 0; mi < 6; mi ++) {
		size_t m = ml[mi], i;
		const uint8_t *src = h_src(ref_hmsg, m, h_aligns_sub[(k + (size_t)mi) % H_NSUB], &base);

		expected(ai, k, mi, want);
		/* one update */
		W = h_ctx_alloc(A->hctx_size);
		memcpy(W, H0, A->hctx_size);
		A->h_update(W, src, m);
		h_transitions ++;
		h_poison(A, W, 1, 0x00);
		snprintf(how, sizeof(how), "mlen=%zu one update", m);
		bad |= do_final(A, W, want, 1, how);
		/* byte by byte (the lengths up to one block + 1; longer ones add nothing C04 does not cover;
		 * the quick level keeps only 1 and B+1) */
		if (m <= A->B + 1 && (H_LEVEL > 0 || 1 == m || A->B + 1 == m)) {
			memcpy(W, H0, A->hctx_size);
			for (i = 0; i < m; i ++) {
				A->h_update(W, src + i, 1);
				h_transitions ++;
			}
			h_poison(A, W, 1, 0xA5);
			snprintf(how, sizeof(how), "mlen=%zu one-byte updates", m);
			bad |= do_final(A, W, want, 0, how);
		}
		/* empty | B-1 | empty | rest */
		memcpy(W, H0, A->hctx_size);
		i = (m < A->B - 1) ? m : (A->B - 1);
		A->h_update(W, src, 0);
		A->h_update(W, src, i);
		A->h_update(W, src + i, 0);
		A->h_update(W, src + i, m - i);
		h_transitions += 4;
		snprintf(how, sizeof(how), "mlen=%zu updates 0|%zu|0|%zu", m, i, m - i);
		bad |= do_final(A, W, want, 1, how);
		free(W);
		free(base);
	}
	free(H0);
	return (bad);
}

/* partition confluence on hmac_*_update for one key length */
static int
case_bfs(int ai, int v, size_t k, const int *al, int nal, size_t L) {
	const halg_t *A = &halgs[ai];
	void *H0 = make_h0(A, A->vname[v], k), *base;
	uint8_t *S[2], *canon, *W, want[64], cbuf[HCANON_MAX];
	size_t *clen, n, c, ml[6];
	char how[128];
	int a, pz, mi, bad = 0;

	msg_lens(A, ml);
	S[0] = (uint8_t *)malloc((L + 1) * A->hctx_size);
	S[1] = (uint8_t *)malloc((L + 1) * A->hctx_size);
	canon = (uint8_t *)malloc((L + 1) * HCANON_MAX);
	clen = (size_t *)malloc((L + 1) * sizeof(size_t));
	W = (uint8_t *)h_ctx_alloc(A->hctx_size);
	for (n = 0; n <= L; n ++) {
		const uint8_t *src = h_src(ref_hmsg, n, 0, &base);

		memcpy(W, H0, A->hctx_size);
		if (n)
			A->h_update(W, src, n);
		free(base);
		clen[n] = h_canon(A, W, 1, canon + n * HCANON_MAX);
		h_state_seen(ai, canon + n * HCANON_MAX, clen[n], (uint64_t)k);
		for (pz = 0; pz < 2; pz ++) {
			h_poison(A, W, 1, h_poisons[pz]);
			memcpy(S[pz] + n * A->hctx_size, W, A->hctx_size);
		}
	}
	for (n = 0; n <= L; n ++) {
		for (c = 0; c <= L - n; c ++) {
			for (a = 0; a < nal; a ++) {
				const uint8_t *src = h_src(ref_hmsg + n, c, al[a], &base);

				for (pz = 0; pz < 2; pz ++) {
					size_t len;

					if (a >= H_BOTH && pz != (a & 1))
						continue;
					memcpy(W, S[pz] + n * A->hctx_size, A->hctx_size);
					A->h_update(W, src, c);
					h_transitions ++;
					len = h_canon(A, W, 1, cbuf);
					if (len != clen[n + c] ||
					    0 != memcmp(cbuf, canon + (n + c) * HCANON_MAX, len)) {
						vh_fail("confluence", "n=%zu c=%zu a=%d dead-bytes=0x%02x: context differs "
						    "from the single-update context of %zu bytes", n, c, al[a],
						    h_poisons[pz], (n + c));
						bad = 1;
					}
				}
				free(base);
			}
		}
	}
	for (mi = 0; mi < 6 && ml[mi] <= L; mi ++) {
		expected(ai, k, mi, want);
		for (pz = 0; pz < 2; pz ++) {
			memcpy(W, S[pz] + ml[mi] * A->hctx_size, A->hctx_size);
			snprintf(how, sizeof(how), "final from state n=%zu dead-bytes=0x%02x", ml[mi], h_poisons[pz]);
			bad |= do_final(A, W, want, pz, how);
		}
	}
	free(W);
	free(clen);
	free(canon);
	free(S[1]);
	free(S[0]);
	free(H0);
	return (bad);
}

/* which: 0 hmac_X(), 1 X_hmac_get_digest(), 2 X_hmac_get_digest_str() */
static int
case_oneshot(int ai, size_t k, int which) {
	const halg_t *A = &halgs[ai];
	void *kbase, *mbase;
	const uint8_t *key = h_src(ref_key, k, h_aligns_sub[(k + 2) % H_NSUB], &kbase);
	uint8_t want[64];
	char hex[2 * 64 + 8], whex[2 * 64 + 8];
	size_t ml[6];
	int mi, bad = 0;

	msg_lens(A, ml);
	for (mi = 0; mi < 6; mi ++) {
		size_t m = ml[mi], sz = 0xdead;
		const uint8_t *src = h_src(ref_hmsg, m, h_aligns_sub[(k + (size_t)mi + 5) % H_NSUB], &mbase);
		int with_size = ((k + (size_t)mi) & 1) ? 0 : 1;	/* the size out-parameter is optional */

		expected(ai, k, mi, want);
		if (2 != which) {
			uint8_t *dg = (uint8_t *)malloc(A->hs);

			memset(dg, 0xCC, A->hs);
			if (0 == which)
				A->h_oneshot(key, k, src, m, dg, with_size ? &sz : NULL);
			else
				A->h_get_digest(key, k, src, m, dg, with_size ? &sz : NULL);
			if (0 != memcmp(dg, want, A->hs)) {
				vh_hex(hex, sizeof(hex), dg, A->hs);
				vh_fail("mac", "mlen=%zu got %s", m, hex);
				bad = 1;
			}
			if (A->has_size_out && with_size && sz != A->hs) {
				vh_fail("mac-size", "mlen=%zu reported %zu", m, sz);
				bad = 1;
			}
			free(dg);
		} else {
			/* 2*hs characters + the terminating NUL the function writes */
			char *s = (char *)malloc(2 * A->hs + 1);

			memset(s, 0x7e, 2 * A->hs + 1);
			vh_hex(whex, sizeof(whex), want, A->hs);
			A->h_get_digest_str((const char *)key, k, (const char *)src, m, s, with_size ? &sz : NULL);
			if (0 != memcmp(s, whex, 2 * A->hs)) {
				vh_fail("hex-mac", "mlen=%zu got %.*s", m, (int)(2 * A->hs), s);
				bad = 1;
			}
			if (A->has_size_out && with_size && sz != 2 * A->hs) {
				vh_fail("mac-size", "mlen=%zu reported %zu", m, sz);
				bad = 1;
			}
			free(s);
		}
		free(mbase);
	}
	free(kbase);
	return (bad);
}

/* Key CONTENTS that matter for Streebog: the 512-bit checksum adds whole blocks, the first of them is the keyed pad;
 * keys made of ~0x36 (0xc9) / ~0x5c (0xa3) turn a pad into all-ones words, so every carry of the adder is exercised
 * (and 0x36 / 0x5c keys into all-zero words); plus the two single-word variants.  Messages: counter bytes and 0xff. */
static void
gost_key_contents(void) {
	static const uint8_t fills[6] = { 0xc9, 0xa3, 0xff, 0x00, 0x36, 0x5c };
	static const size_t klens[4] = { 8, 32, 64, 65 }, mlens[6] = { 0, 1, 63, 64, 65, 128 };
	uint8_t key[65], msg[128], want[64], got[64]; size_t dsz; int bits, kv, mi, mp; size_t ki, i, kl, ml;
	hmac_gost3411_2012_ctx_t hctx;

	for (bits = 256; bits <= 512; bits += 256) for (kv = 0; kv < 8; kv ++) for (ki = 0; ki < 4; ki ++) {
		const char *target = (256 == bits) ? "hmac_gost3411_2012[256]/key-contents" : "hmac_gost3411_2012[512]/key-contents";
		if (kv >= 6 && ki != 2) continue;	/* the single-word variants: 64-byte keys */
		if (!vh_begin(target)) continue;
		kl = klens[ki];
		if (kv < 6) memset(key, fills[kv], kl);
		else { memcpy(key, ref_key, kl); memset(key + ((6 == kv) ? 8 : 16), (6 == kv) ? 0xc9 : 0xa3, 8); }
		vh_desc("key: %zu bytes, %s", kl, (kv < 6) ? "one byte value" : "LFSR with one all-ones pad word");
		vh_publish_desc();
		for (mp = 0; mp < 2; mp ++) for (mi = 0; mi < 6; mi ++) {
			ml = mlens[mi];
			for (i = 0; i < ml; i ++) msg[i] = mp ? 0xff : ref_hmsg[i];
			ref_hmac_streebog(bits, key, kl, msg, ml, want);
			memset(got, 0xEE, sizeof(got)); dsz = 0;
			hmac_gost3411_2012((size_t)bits, key, kl, msg, ml, got, &dsz);
			if (dsz != (size_t)bits / 8 || 0 != memcmp(got, want, dsz))
				vh_fail("mac", "one call: key fill %d/%zu bytes, message %s x %zu: differs from RFC 2104 over the reference hash", kv, kl, mp ? "0xff" : "counter", ml);
			memset(got, 0xEE, sizeof(got)); dsz = 0;
			hmac_gost3411_2012_init((size_t)bits, key, kl, &hctx);
			hmac_gost3411_2012_update(&hctx, msg, ml / 2);
			hmac_gost3411_2012_update(&hctx, msg + ml / 2, ml - ml / 2);
			hmac_gost3411_2012_final(&hctx, got, &dsz);
			if (dsz != (size_t)bits / 8 || 0 != memcmp(got, want, dsz))
				vh_fail("mac", "two updates: key fill %d/%zu bytes, message %s x %zu: differs from RFC 2104 over the reference hash", kv, kl, mp ? "0xff" : "counter", ml);
		}
		vh_nontrivial();
	}
}

int
main(int argc, char **argv) {
	int ai, v, nal, bad, which;
	const int *al;
	size_t k, L;

	vh_init(argc, argv);
	h_common_init();
	h_install_handlers();

	for (ai = 0; ai < HALG_COUNT; ai ++) {
		const halg_t *A = &halgs[ai];
		size_t kmax = 3 * A->B + 1;
		char hpfx[64];
		const char *t_one[3];

		snprintf(hpfx, sizeof(hpfx), "hmac_%s", A->pfx);
		for (v = 0; v < A->nvar; v ++) {
			const char *t_update = h_name(hpfx, "_update", A->sfx, A->vname[v]);
			const char *t_final = h_name(hpfx, "_final", A->sfx, A->vname[v]);

			for (k = 0; k <= kmax; k ++) {
				if (vh_begin(t_final)) {
					vh_desc("klen=%zu", k);
					vh_publish_desc();
					H_GUARDED(bad, case_final(ai, v, k));
					if (!bad)
						vh_nontrivial();
				}
				nal = bfs_params(A, k, &al, &L);
				if (0 != nal && vh_begin(t_update)) {
					vh_desc("klen=%zu L=%zu alignments=%d", k, L, nal);
					vh_publish_desc();
					H_GUARDED(bad, case_bfs(ai, v, k, al, nal, L));
					if (!bad)
						vh_nontrivial();
				}
			}
			h_flush_model(1);
		}

		/* one-shot entry points (transform = whatever init selects on this CPU) */
		t_one[0] = h_name(hpfx, "", A->sfx, NULL);
		t_one[1] = h_name(A->pfx, "_hmac_get_digest", A->sfx, NULL);
		t_one[2] = h_name(A->pfx, "_hmac_get_digest_str", A->sfx, NULL);
		for (k = 0; k <= kmax; k ++) {
			for (which = 0; which < 3; which ++) {
				if (!vh_begin(t_one[which]))
					continue;
				vh_desc("klen=%zu", k);
				vh_publish_desc();
				H_GUARDED(bad, case_oneshot(ai, k, which));
				if (!bad)
					vh_nontrivial();
			}
		}
	}
	gost_key_contents();
	h_flush_model(1);
	return (vh_finish());
}
