"""C07 - HMAC equals RFC 2104 for every key length, message and chunking, in every build variant.

Same build matrix and reference material as C04 (harness/C04/matrix.py, gen_ref.py, ref_streebog.c,
hcommon.h); the harness is h_c07.c.
"""
import os, sys
from vlib import core

C04 = os.path.join(core.VERIF, 'harness', 'C04')
sys.path.insert(0, C04)
import matrix  # noqa: E402

PROP = 'C07'


def run(tier):
    rep = core.Report(PROP, tier, 'model_checking',
        'every key length 0..3 blocks+1 x message lengths {0,1,B-1,B,B+1,2B} x {one update, one-byte updates (m<=B+1), 0|B-1|0|rest} '
        'and the three one-shot entry points, for all 8 hash variants and every forced block transform of every build; '
        'partition-confluence exploration of hmac_*_update (states = canonical HMAC contexts (algorithm, transform, key length, '
        'absorbed n); transitions = every update(next c bytes at alignment a) and every final, with dead context bytes 0x00 / 0xA5) '
        'for key lengths {0,B,3B+1} with n<=B+2 (quick), the nine boundary key lengths with n<=2B (thorough, every build) and every '
        'key length in the all-transforms build.  A case is non-trivial when every MAC in it equalled the reference and the pads were wiped')
    rep.assumptions = [
        'Python hmac/hashlib is the reference for HMAC-MD5/SHA-1/SHA-2',
        'HMAC-Streebog reference = RFC 2104 written out over harness/C04/ref_streebog.c (tables parsed as data from liblcb\'s header, '
        'values anchored by RFC 6986 and RFC 7836 vectors that the reference must reproduce in this run)',
        'hmac_*_update is the hash update on the embedded context, whose chunking C04 explores with longer messages and all alignments; '
        'the full confluence exploration is therefore repeated here only for the boundary key lengths in most builds',
        'key = prefix of one fixed LFSR byte pattern, message = prefix of the C04 counter pattern',
        'the sandbox CPU implements every instruction set a forced transform needs (sse4.1, avx2, sha_ni)',
    ]
    matrix.run_matrix(rep, PROP, tier, 'harness/C07/h_c07.c', 'h_c07', residue_set=1)
