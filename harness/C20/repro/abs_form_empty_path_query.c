/* C20 reproducer: absolute-form request target with an empty path and a query.
 *
 *   gcc -D_GNU_SOURCE -DLINUX -DHAVE_MEMMEM -DHAVE_MEMRCHR -DHAVE_STRNCASECMP -DHAVE_EXPLICIT_BZERO \
 *       -DHAVE_REALLOCARRAY -DHAVE_PIPE2 -DHAVE_ACCEPT4 -DHAVE_SOCK_NONBLOCK -DHAVE_SOCK_CLOEXEC \
 *       -I/repo/include -I/repo/src abs_form_empty_path_query.c /repo/src/proto/http.c -o /var/tmp/c20_repro1 && /var/tmp/c20_repro1
 *
 * RFC 7230 5.3.2: absolute-form = absolute-URI; RFC 7230 2.7.1: http-URI = "http:" "//" authority
 * path-abempty [ "?" query ]; RFC 3986 3.2: "The authority component is ... terminated by the next
 * slash ("/"), question mark ("?"), or number sign ("#") character, or by the end of the URI."
 * For "GET http://h:80?q=1 HTTP/1.1" the authority is "h:80", the path is empty, the query is "q=1".
 * http_parse_req_line() only looks for '/' and returns host = "h:80?q=1", query = NULL.
 * Exit status 1 = defect present.
 */
#include <stdio.h>
#include <stdint.h>
#include <string.h>
#include <sys/types.h>
#include "proto/http.h"

int
main(void) {
	static const char req[] = "GET http://h:80?q=1 HTTP/1.1\r\nHost: h:80\r\n\r\n";
	size_t hdr_size = (size_t)(strstr(req, "\r\n\r\n") - req); /* as http_server.c computes it */
	http_req_line_data_t d;
	int rc, bad = 0;

	rc = http_parse_req_line((const uint8_t *)req, hdr_size, &d);
	printf("rc=%d host='%.*s' path='%.*s' query='%.*s'\n", rc, (int)d.host_size, d.host,
	    (int)d.abs_path_size, d.abs_path, (int)d.query_size, d.query ? (const char *)d.query : "");
	if (rc != 0 || d.host_size != 4 || 0 != memcmp(d.host, "h:80", 4)) {
		printf("FAIL: authority should be 'h:80'\n"); bad = 1;
	}
	if (rc != 0 || d.query_size != 3 || NULL == d.query || 0 != memcmp(d.query, "q=1", 3)) {
		printf("FAIL: query should be 'q=1'\n"); bad = 1;
	}
	if (!bad) printf("OK\n");
	return (bad);
}
