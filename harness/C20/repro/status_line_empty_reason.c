/* C20 reproducer: shortest well-formed status line is refused.
 *
 *   gcc -D_GNU_SOURCE -DLINUX -DHAVE_MEMMEM -DHAVE_MEMRCHR -DHAVE_STRNCASECMP -DHAVE_EXPLICIT_BZERO \
 *       -DHAVE_REALLOCARRAY -DHAVE_PIPE2 -DHAVE_ACCEPT4 -DHAVE_SOCK_NONBLOCK -DHAVE_SOCK_CLOEXEC \
 *       -I/repo/include -I/repo/src status_line_empty_reason.c /repo/src/proto/http.c -o /var/tmp/c20_repro2 && /var/tmp/c20_repro2
 *
 * RFC 7230 3.1.2: status-line = HTTP-version SP status-code SP reason-phrase CRLF with
 * reason-phrase = *( HTAB / SP / VCHAR / obs-text ), i.e. the reason may be empty.  A response head
 * without header fields and with an empty reason is "HTTP/1.1 204 \r\n\r\n"; with the buffer
 * convention of this library (hdr_size = offset of CRLFCRLF) that is 13 bytes.
 * http_parse_resp_line() starts with `14 > hdr_size -> EINVAL` although it never touches
 * http_hdr[13]; the same line parses as soon as one header field follows.
 * Exit status 1 = defect present.
 */
#include <stdio.h>
#include <stdint.h>
#include <string.h>
#include <sys/types.h>
#include "proto/http.h"

int
main(void) {
	static const char r1[] = "HTTP/1.1 204 \r\n\r\n";
	static const char r2[] = "HTTP/1.1 204 \r\nX-A: v\r\n\r\n";
	http_resp_line_data_t d;
	int rc1, rc2;

	memset(&d, 0, sizeof(d));
	rc2 = http_parse_resp_line((const uint8_t *)r2, (size_t)(strstr(r2, "\r\n\r\n") - r2), &d);
	printf("with a header field : rc=%d code=%u reason_size=%zu\n", rc2, d.status_code, d.reason_phrase_size);
	memset(&d, 0, sizeof(d));
	rc1 = http_parse_resp_line((const uint8_t *)r1, (size_t)(strstr(r1, "\r\n\r\n") - r1), &d);
	printf("without header field: rc=%d code=%u reason_size=%zu\n", rc1, d.status_code, d.reason_phrase_size);
	if (rc1 != 0 || d.status_code != 204 || d.reason_phrase_size != 0) {
		printf("FAIL: well-formed 13-byte status line refused\n");
		return (1);
	}
	printf("OK\n");
	return (0);
}
