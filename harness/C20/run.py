from vlib import core


def run(tier):
    rep = core.Report('C20', tier, 'exploration',
        'complete walk of a finite RFC 7230 generator: request lines (14 methods x origin/absolute/authority/asterisk targets x '
        'paths of 0..3 segments from {"",a,b.c} with 0..2 extra leading/trailing slashes x 4 queries x 2 schemes x 3 authorities x '
        '2 versions x with/without a header field), status lines (1000 codes x 6 reasons x 2 versions x 2 contexts), every header '
        'block of <=3 (thorough: <=4) fields from 16 name spellings x 4 values (all orderings and duplicates) under GET/POST/extension '
        'request lines (all 14 method codes for <=2 fields), and single edits on clean (block, request line) pairs: on blocks of '
        '<=2 fields each of the 32 control bytes (00-1f without 09, 7f) inserted at every position, SP before each colon, one extra '
        'framing field in every spelling/value/position that introduces a listed pattern; on 3-field blocks SP before each colon '
        '(quick) / all of the above with the 10 boundary control bytes 00 01 08 0a 0b 0c 0d 0e 1f 7f (thorough). A case is '
        'non-trivial when the library accepted a well-formed line and every span matched, a lookup/count over a non-empty block '
        'matched the reference, or the security verdict matched the reference verdict')
    rep.assumptions = [
        'buffer convention of both in-tree callers (http_server.c, upnp_ssdp.c): the buffer holds the head including the '
        'terminating CRLFCRLF and hdr_size is the offset of the first CRLFCRLF',
        'reference = generator-known spans cross-checked against an ABNF reference parser written in the harness '
        '(RFC 7230 3.1.1, 3.1.2, 3.2, 3.2.4, 5.3; RFC 3986 3.2); control byte = octet < 0x20 other than HTAB and other than CR LF '
        'forming a CRLF pair, or 0x7F; octets >= 0x80 are not generated',
        'path oracle: leading slashes collapsed to one (documented for every target); trailing slashes removed (documented for '
        'targets without a query; with a query both trimmed and untrimmed tails are accepted)',
    ]
    b = core.compile_c('C20', 'h_c20', ['harness/C20/h_c20.c', core.repo_src('proto', 'http.c')])
    # keep the violation with the smallest case index first, so that the replay file does not depend on
    # which shard finished first (core keeps the first 8 it happens to ingest)
    allv = {}
    rep.add_violation = lambda target, clause, index, desc, config='': \
        allv.setdefault((target, clause), []).append((str(index), desc, config))
    core.run_sharded(rep, b, tier)
    for k, l in allv.items():
        l.sort(key=lambda x: (int(x[0]) if x[0].isdigit() else 0, x[1]))
        rep.viol[k] = l[:8]
    sums = {}
    for n in rep.notes:
        if '=' in n:
            k, v = n.split('=', 1)
            try:
                sums[k] = sums.get(k, 0) + int(v)
            except ValueError:
                pass
    for k, v in sorted(sums.items()):
        rep.extra[k] = v
    if sums.get('selfcheck_mismatch', 0):
        rep.harness_errors.append('generator and reference parser disagree on %d case(s): harness bug, verdict withheld'
                                  % sums['selfcheck_mismatch'])
    rep.notes = [n for n in rep.notes if '=' not in n]
    rep.finish(core.make_replayer(lambda cfg: b, tier))
