/* C20 - HTTP request/status line parsing, header lookup and the smuggling check agree with
 * RFC 7230 / RFC 3986 on a finite grammar that is walked completely.
 *
 * Calling convention (the one both callers in /repo use: http_server.c:1150-1200 and
 * upnp_ssdp.c:940-961): the buffer holds the whole message head INCLUDING the terminating
 * CRLFCRLF; the functions get (buf, hdr_size) with hdr_size = offset of the first CRLFCRLF,
 * i.e. request line CRLF field CRLF ... field (no CRLF behind the last field).  The harness
 * allocates exactly text+CRLFCRLF on the heap, so the ASan redzone starts behind the CRLFCRLF.
 *
 * Oracle = (1) the spans the generator knows while it emits the text and (2) an independent
 * reference parser written from the ABNF (ref_*) that works on the bytes only.  The library is
 * compared with (2); (1) and (2) are compared with each other as a harness self check
 * (NOTE selfcheck_mismatch=<n>, turned into a harness error by run.py, never a VIOLATION).
 */
#include <errno.h>
#include <inttypes.h>
#include <stddef.h>
#include "vh.h"
#include "proto/http.h"

/* ------------------------------------------------------------------ small helpers */
typedef struct { uint8_t b[768]; size_t n; } tb_t;
static inline void tb_add(tb_t *t, const void *s, size_t l) { memcpy(t->b + t->n, s, l); t->n += l; }
static inline void tb_adds(tb_t *t, const char *s) { tb_add(t, s, strlen(s)); }

typedef struct { int present; size_t off, len; } span_t;
static inline span_t mkspan(size_t off, size_t len) { span_t s; s.present = 1; s.off = off; s.len = len; return (s); }
static inline int span_eq(span_t a, span_t b) {
	if (a.present != b.present) return (0);
	if (!a.present) return (1);
	return (a.off == b.off && a.len == b.len);
}

static uint64_t selfcheck_mismatch = 0;
static uint64_t n_sec_expect_reject = 0, n_sec_expect_accept = 0, n_edit_ctl = 0, n_edit_spc = 0, n_edit_ins = 0;
static uint64_t n_blocks = 0, n_clean_bases = 0;

/* current case, for the lazy describer */
static const uint8_t *g_buf; static size_t g_len, g_hdr; static const char *g_what = ""; static unsigned g_code;
static void
describe(char *out, size_t cap) {
	size_t o, i;
	o = (size_t)snprintf(out, cap, "%s mcode=%u hdr_size=%zu text=\"", g_what, g_code, g_hdr);
	for (i = 0; i < g_len && o + 8 < cap; i ++) {
		uint8_t c = g_buf[i];
		if (c == '\r') { out[o ++] = '\\'; out[o ++] = 'r'; }
		else if (c == '\n') { out[o ++] = '\\'; out[o ++] = 'n'; }
		else if (c == '\t') { out[o ++] = '\\'; out[o ++] = 't'; }
		else if (c == '"' || c == '\\') { out[o ++] = '\\'; out[o ++] = (char)c; }
		else if (c < 0x20 || c > 0x7e) { o += (size_t)snprintf(out + o, cap - o, "\\x%02x", c); }
		else out[o ++] = (char)c;
	}
	if (o + 2 < cap) { out[o ++] = '"'; }
	out[o] = 0;
}

/* hdr_size exactly as the callers compute it */
static size_t
find_hdr_size(const uint8_t *b, size_t n) {
	const uint8_t *p = (const uint8_t *)memmem(b, n, "\r\n\r\n", 4);
	return (p ? (size_t)(p - b) : n);
}

/* is [p, p+sz) a sub-span of [buf, buf+n) ?  NULL is allowed only together with sz == 0 */
static int
is_subspan(const uint8_t *buf, size_t n, const uint8_t *p, size_t sz) {
	if (NULL == p) return (0 == sz);
	return (p >= buf && sz <= n && (size_t)(p - buf) <= n - sz);
}

static int ci_eq(const uint8_t *a, size_t al, const char *b, size_t bl) {
	size_t i;
	if (al != bl) return (0);
	for (i = 0; i < al; i ++) {
		uint8_t x = a[i], y = (uint8_t)b[i];
		if (x >= 'A' && x <= 'Z') x = (uint8_t)(x + 32);
		if (y >= 'A' && y <= 'Z') y = (uint8_t)(y + 32);
		if (x != y) return (0);
	}
	return (1);
}

/* ================================================================== reference: RFC 7230 3.1.1 / 5.3, RFC 3986 3 */
enum { FORM_ORIGIN = 0, FORM_ABSOLUTE, FORM_AUTHORITY, FORM_ASTERISK };
typedef struct {
	span_t method, target, scheme, auth, path, query;
	int form; int vmaj, vmin; size_t line_len;
} req_t;

static int is_alpha(uint8_t c) { return ((c >= 'a' && c <= 'z') || (c >= 'A' && c <= 'Z')); }
static int is_digit(uint8_t c) { return (c >= '0' && c <= '9'); }
static int is_tchar(uint8_t c) { return (is_alpha(c) || is_digit(c) || (c != 0 && NULL != strchr("!#$%&'*+-.^_`|~", c))); }
static int is_unres(uint8_t c) { return (is_alpha(c) || is_digit(c) || c == '-' || c == '.' || c == '_' || c == '~'); }
static int is_subdel(uint8_t c) { return (c != 0 && NULL != strchr("!$&'()*+,;=", c)); }
static int is_pchar(uint8_t c) { return (is_unres(c) || is_subdel(c) || c == ':' || c == '@' || c == '%'); }

/* authority = host [ ":" port ]   (no userinfo in the generated language) */
static int
ref_authority_ok(const uint8_t *b, size_t n) {
	size_t i = 0;
	if (n == 0) return (0);
	if (b[0] == '[') { /* IP-literal */
		for (i = 1; i < n && b[i] != ']'; i ++)
			if (!(is_digit(b[i]) || is_alpha(b[i]) || b[i] == ':' || b[i] == '.')) return (0);
		if (i == n) return (0);
		i ++;
	} else {
		for (; i < n && b[i] != ':'; i ++)
			if (!(is_unres(b[i]) || is_subdel(b[i]) || b[i] == '%')) return (0);
		if (i == 0) return (0);
	}
	if (i == n) return (1);
	if (b[i] != ':') return (0);
	for (i ++; i < n; i ++) if (!is_digit(b[i])) return (0);
	return (1);
}

/* request-line = method SP request-target SP HTTP-version  (b[0..n) is the header block; the
 * request line ends at the first CRLF or at n).  Returns 0 when well formed. */
static int
ref_parse_req(const uint8_t *b, size_t n, req_t *r) {
	size_t i, le, ts, te, p;
	const uint8_t *crlf = (const uint8_t *)memmem(b, n, "\r\n", 2);

	memset(r, 0, sizeof(*r));
	le = crlf ? (size_t)(crlf - b) : n;
	r->line_len = le;
	for (i = 0; i < le && is_tchar(b[i]); i ++) ;
	if (i == 0 || i >= le || b[i] != ' ') return (-1);
	r->method = mkspan(0, i);
	ts = i + 1;
	for (te = ts; te < le && b[te] != ' '; te ++) ;
	if (te == ts || te >= le) return (-2);
	r->target = mkspan(ts, te - ts);
	/* HTTP-version = "HTTP/" DIGIT "." DIGIT, then end of line */
	p = te + 1;
	if (le - p != 8 || 0 != memcmp(b + p, "HTTP/", 5) || !is_digit(b[p + 5]) || b[p + 6] != '.' || !is_digit(b[p + 7]))
		return (-3);
	r->vmaj = b[p + 5] - '0'; r->vmin = b[p + 7] - '0';
	/* request-target = origin-form / absolute-form / authority-form / asterisk-form (5.3) */
	if (r->method.len == 7 && 0 == memcmp(b, "CONNECT", 7)) { /* 5.3.3 */
		if (!ref_authority_ok(b + ts, te - ts)) return (-4);
		r->form = FORM_AUTHORITY; r->auth = r->target;
		return (0);
	}
	if (te - ts == 1 && b[ts] == '*') { r->form = FORM_ASTERISK; return (0); }
	if (b[ts] == '/') { /* origin-form = absolute-path [ "?" query ] */
		r->form = FORM_ORIGIN;
		p = ts;
	} else { /* absolute-form = scheme ":" "//" authority path-abempty [ "?" query ] */
		r->form = FORM_ABSOLUTE;
		if (!is_alpha(b[ts])) return (-5);
		for (i = ts; i < te && (is_alpha(b[i]) || is_digit(b[i]) || b[i] == '+' || b[i] == '-' || b[i] == '.'); i ++) ;
		if (i + 2 >= te || b[i] != ':' || b[i + 1] != '/' || b[i + 2] != '/') return (-6);
		r->scheme = mkspan(ts, i - ts);
		p = i + 3;
		/* RFC 3986 3.2: the authority is terminated by the next "/", "?", "#" or the end */
		for (i = p; i < te && b[i] != '/' && b[i] != '?' && b[i] != '#'; i ++) ;
		if (!ref_authority_ok(b + p, i - p)) return (-7);
		r->auth = mkspan(p, i - p);
		p = i;
	}
	for (i = p; i < te && b[i] != '?'; i ++)
		if (!(b[i] == '/' || is_pchar(b[i]))) return (-8);
	r->path = mkspan(p, i - p);
	if (i < te) { /* "?" query */
		size_t q = i + 1;
		for (i = q; i < te; i ++) if (!(is_pchar(b[i]) || b[i] == '/' || b[i] == '?')) return (-9);
		r->query = mkspan(q, te - q);
	}
	return (0);
}

/* status-line = HTTP-version SP 3DIGIT SP reason-phrase */
typedef struct { int vmaj, vmin; unsigned code; span_t reason; size_t line_len; } resp_t;
static int
ref_parse_resp(const uint8_t *b, size_t n, resp_t *r) {
	size_t le, i;
	const uint8_t *crlf = (const uint8_t *)memmem(b, n, "\r\n", 2);
	le = crlf ? (size_t)(crlf - b) : n;
	if (le < 13 || 0 != memcmp(b, "HTTP/", 5) || !is_digit(b[5]) || b[6] != '.' || !is_digit(b[7]) || b[8] != ' ' ||
	    !is_digit(b[9]) || !is_digit(b[10]) || !is_digit(b[11]) || b[12] != ' ')
		return (-1);
	for (i = 13; i < le; i ++) if (!(b[i] == '\t' || b[i] == ' ' || (b[i] > 0x20 && b[i] != 0x7f))) return (-2);
	r->vmaj = b[5] - '0'; r->vmin = b[7] - '0';
	r->code = (unsigned)((b[9] - '0') * 100 + (b[10] - '0') * 10 + (b[11] - '0'));
	r->reason = mkspan(13, le - 13);
	r->line_len = le;
	return (0);
}

/* header-field = field-name ":" OWS field-value OWS ; obs-fold = CRLF 1*( SP / HTAB ) */
#define MAXF 8
typedef struct { size_t noff, nlen, voff, vlen; } fld_t;
static int
ref_parse_fields(const uint8_t *b, size_t n, fld_t *f, int *nf) {
	const uint8_t *crlf = (const uint8_t *)memmem(b, n, "\r\n", 2);
	size_t pos, e, c, vs, ve;

	*nf = 0;
	if (NULL == crlf) return (0);
	pos = (size_t)(crlf - b) + 2;
	while (pos < n) {
		/* end of this field: first CRLF that is not followed by SP / HTAB */
		for (e = pos;;) {
			const uint8_t *x = (e < n) ? (const uint8_t *)memmem(b + e, n - e, "\r\n", 2) : NULL;
			if (NULL == x) { e = n; break; }
			e = (size_t)(x - b);
			if (e + 2 < n && (b[e + 2] == ' ' || b[e + 2] == '\t')) { e += 3; continue; }
			break;
		}
		for (c = pos; c < e && b[c] != ':'; c ++) ;
		if (c == e || c == pos) return (-1); /* no colon / empty name: not a header-field */
		if (*nf == MAXF) return (-2);
		vs = c + 1; ve = e;
		/* OWS at the edges; CR and LF can stand there only as part of an obs-fold (the field ends at the first
		 * CRLF not followed by SP / HTAB), and a fold is white space */
		while (vs < ve && (b[vs] == ' ' || b[vs] == '\t' || b[vs] == '\r' || b[vs] == '\n')) vs ++;
		while (ve > vs && (b[ve - 1] == ' ' || b[ve - 1] == '\t' || b[ve - 1] == '\r' || b[ve - 1] == '\n')) ve --;
		f[*nf].noff = pos; f[*nf].nlen = c - pos; f[*nf].voff = vs; f[*nf].vlen = ve - vs;
		(*nf) ++;
		pos = e + 2;
	}
	return (0);
}

/* Does the block contain one of the patterns the property lists?  Returns a label or NULL. */
static const char *
ref_sec_pattern(const uint8_t *b, size_t n, uint32_t mcode) {
	size_t i; fld_t f[MAXF]; int nf, k, nh = 0, ncl = 0, nte = 0;

	/* control bytes: everything below SP except HTAB and the CRLF line terminators, and DEL */
	for (i = 0; i < n;) {
		if (b[i] == '\r' && i + 1 < n && b[i + 1] == '\n') { i += 2; continue; }
		if ((b[i] < 0x20 && b[i] != '\t') || b[i] == 0x7f) return ("ctl");
		i ++;
	}
	for (i = 0; i + 1 < n; i ++) if (b[i] == ' ' && b[i + 1] == ':') return ("sp-colon");
	if (0 != ref_parse_fields(b, n, f, &nf)) return ("(unparsable)");
	for (k = 0; k < nf; k ++) {
		if (ci_eq(b + f[k].noff, f[k].nlen, "host", 4)) nh ++;
		if (ci_eq(b + f[k].noff, f[k].nlen, "content-length", 14)) ncl ++;
		if (ci_eq(b + f[k].noff, f[k].nlen, "transfer-encoding", 17)) nte ++;
	}
	if (nh > 1) return ("dup-host");
	if (ncl > 1) return ("dup-content-length");
	if (nte > 1) return ("dup-transfer-encoding");
	if (ncl && nte) return ("cl+te");
	if (ncl && mcode == HTTP_REQ_METHOD_GET) return ("cl-on-get");
	return (NULL);
}

/* ================================================================== request lines */
static const char *METHODS[] = { "OPTIONS", "GET", "HEAD", "POST", "PUT", "DELETE", "TRACE", "CONNECT", "NOTIFY",
	"M-SEARCH", "M-POST", "SUBSCRIBE", "UNSUBSCRIBE", "PATCH" /* extension token */ };
static const uint32_t METHOD_CODE[] = { 1, 2, 3, 4, 5, 6, 7, 8, 9, 10, 11, 12, 13, 0 };
#define NMETHODS 14
static const char *SEGS[] = { "", "a", "b.c", "c:" };	/* pchar includes ':' - with an empty segment behind it the path contains "://" */
#define NSEGS 4
static const char *QUERIES[] = { NULL, "", "q=1", "a=&b", "u=x://y/z" };	/* query = *( pchar / "/" / "?" ): a URL inside the query */
#define NQUERIES 5
static const char *SCHEMES[] = { "http", "HTTPS" };
static const char *AUTHS[] = { "h", "h:80", "[::1]:8" };
static const char *VERSIONS[] = { "HTTP/1.0", "HTTP/1.1" };

typedef struct { span_t method, target, scheme, auth, path, query; int form; int ver; uint32_t mcode; } gen_req_t;

static void
check_req_line(const tb_t *line, const gen_req_t *g, int with_hdr) {
	tb_t full; uint8_t *buf; size_t hdr; req_t r; http_req_line_data_t d; int rc, ok = 1, rrc;
	uint32_t want_ver;

	if (!vh_begin("http_parse_req_line")) return;
	full.n = 0; tb_add(&full, line->b, line->n);
	if (with_hdr) tb_adds(&full, "\r\nHost: h");
	tb_adds(&full, "\r\n\r\n");
	buf = (uint8_t *)vh_dup(full.b, full.n);
	hdr = find_hdr_size(buf, full.n);
	g_buf = buf; g_len = full.n; g_hdr = hdr; g_what = "req"; g_code = g->mcode;

	rrc = ref_parse_req(buf, hdr, &r);
	if (rrc != 0 || !span_eq(r.method, g->method) || !span_eq(r.target, g->target) || !span_eq(r.scheme, g->scheme) ||
	    !span_eq(r.auth, g->auth) || r.form != g->form || r.vmaj != 1 || r.vmin != g->ver ||
	    ((g->form == FORM_ORIGIN || g->form == FORM_ABSOLUTE) && (!span_eq(r.path, g->path) || !span_eq(r.query, g->query)))) {
		selfcheck_mismatch ++;
		if (selfcheck_mismatch < 4) { fprintf(stderr, "selfcheck: ref rc=%d %s\n", rrc, vh_get_desc()); }
		free(buf); return;
	}
	memset(&d, 0xA5, sizeof(d));
	rc = http_parse_req_line(buf, hdr, &d);
	if (rc != 0) { vh_fail("wellformed-rejected", "rc=%d for a well-formed request line", rc); free(buf); return; }
#define SUB(name, ptr, sz) if (!is_subspan(buf, hdr, (ptr), (sz))) { ok = 0; vh_fail("subspan-" name, "ptr-buf=%td size=%zu outside [0,%zu)", (ptr) ? (ptr) - buf : (ptrdiff_t)-1, (size_t)(sz), hdr); }
	SUB("method", d.method, d.method_size) SUB("target", d.uri, d.uri_size) SUB("scheme", d.scheme, d.scheme_size)
	SUB("authority", d.host, d.host_size) SUB("path", d.abs_path, d.abs_path_size) SUB("query", d.query, d.query_size)
#undef SUB
	if (!ok) { free(buf); return; }
#define EQ(name, sp, ptr, sz) do { \
	if ((sp).present && (sp).len > 0) { \
		if ((ptr) != buf + (sp).off || (sz) != (sp).len) { ok = 0; vh_fail(name, "got off=%td len=%zu want off=%zu len=%zu", (ptr) ? (ptr) - buf : (ptrdiff_t)-1, (size_t)(sz), (sp).off, (sp).len); } \
	} else if ((sz) != 0) { ok = 0; vh_fail(name, "got off=%td len=%zu, reference: %s", (ptr) ? (ptr) - buf : (ptrdiff_t)-1, (size_t)(sz), (sp).present ? "present but empty" : "absent"); } \
} while (0)
	EQ("method-span", r.method, d.method, d.method_size);
	EQ("target-span", r.target, d.uri, d.uri_size);
	EQ("scheme-span", r.scheme, d.scheme, d.scheme_size);
	EQ("authority-span", r.auth, d.host, d.host_size);
	EQ("query-span", r.query, d.query, d.query_size);
#undef EQ
	if (d.method_code != g->mcode) { ok = 0; vh_fail("method-code", "got %u want %u", d.method_code, g->mcode); }
	want_ver = (g->ver == 0) ? HTTP_VER_1_0 : HTTP_VER_1_1;
	if (d.proto_ver != want_ver) { ok = 0; vh_fail("version", "got 0x%x want 0x%x", d.proto_ver, want_ver); }
	/* path: equal up to the documented trimming ("Skip slash~s from head", always; "Remove slash~s from tail",
	 * documented inside the no-query branch only - with a query both the trimmed and the untrimmed tail are accepted) */
	if (r.form == FORM_ORIGIN || r.form == FORM_ABSOLUTE) {
		if (r.path.len == 0) {
			if (d.abs_path_size != 0) { ok = 0; vh_fail("path-span", "empty path, got len=%zu", d.abs_path_size); }
		} else {
			size_t k = 0, L, t = 0, tmax, start;
			while (k < r.path.len && buf[r.path.off + k] == '/') k ++;	/* leading run, >= 1 */
			start = r.path.off + k - 1; L = r.path.len - (k - 1);
			while (t < L - 1 && buf[start + L - 1 - t] == '/') t ++;
			tmax = t;
			if (d.abs_path != buf + start) { ok = 0; vh_fail("path-head-trim", "got off=%td want %zu (path off=%zu len=%zu)", d.abs_path ? d.abs_path - buf : (ptrdiff_t)-1, start, r.path.off, r.path.len); }
			else if (!r.query.present) {
				if (d.abs_path_size != L - tmax) { ok = 0; vh_fail("path-tail-trim", "got len=%zu want %zu", d.abs_path_size, L - tmax); }
			} else if (d.abs_path_size < L - tmax || d.abs_path_size > L) { ok = 0; vh_fail("path-span", "got len=%zu want %zu..%zu", d.abs_path_size, L - tmax, L); }
		}
	}
	if (ok) vh_nontrivial();
	{ size_t o[14]; o[0] = d.method_size; o[1] = d.method_code; o[2] = (size_t)(d.uri - buf); o[3] = d.uri_size;
	  o[4] = d.scheme_size; o[5] = d.host ? (size_t)(d.host - buf) : 0; o[6] = d.host_size; o[7] = d.abs_path ? (size_t)(d.abs_path - buf) : 0;
	  o[8] = d.abs_path_size; o[9] = d.query ? (size_t)(d.query - buf) : 0; o[10] = d.query_size; o[11] = d.proto_ver; o[12] = 0; o[13] = 0;
	  vh_outcome(o, sizeof(o)); }
	free(buf);
}

static void
gen_req_emit(int m, int form, int sc, int au, const char *path, int q, int v) {
	tb_t t; gen_req_t g; size_t ts; int ctx;

	memset(&g, 0, sizeof(g));
	t.n = 0;
	tb_adds(&t, METHODS[m]); g.method = mkspan(0, t.n); g.mcode = METHOD_CODE[m];
	tb_adds(&t, " "); ts = t.n; g.form = form; g.ver = v;
	switch (form) {
	case FORM_ASTERISK: tb_adds(&t, "*"); break;
	case FORM_AUTHORITY: tb_adds(&t, AUTHS[au]); g.auth = mkspan(ts, t.n - ts); break;
	case FORM_ABSOLUTE:
		tb_adds(&t, SCHEMES[sc]); g.scheme = mkspan(ts, t.n - ts); tb_adds(&t, "://");
		{ size_t a = t.n; tb_adds(&t, AUTHS[au]); g.auth = mkspan(a, t.n - a); }
		/* fall through */
	case FORM_ORIGIN:
		{ size_t p = t.n; tb_adds(&t, path); g.path = mkspan(p, t.n - p); }
		if (NULL != QUERIES[q]) { size_t qo; tb_adds(&t, "?"); qo = t.n; tb_adds(&t, QUERIES[q]); g.query = mkspan(qo, t.n - qo); }
		break;
	}
	g.target = mkspan(ts, t.n - ts);
	tb_adds(&t, " "); tb_adds(&t, VERSIONS[v]);
	for (ctx = 0; ctx < 2; ctx ++) check_req_line(&t, &g, ctx);
}

static void
gen_req_all(void) {
	int m, v, depth, lead, trail, q, sc, au, s[3], i, n;
	char path[64];

	vh_set_describer(describe);
	for (m = 0; m < NMETHODS; m ++) for (v = 0; v < 2; v ++) {
		if (0 == strcmp(METHODS[m], "CONNECT")) { /* 5.3.3: authority-form is only used for CONNECT */
			for (au = 0; au < 3; au ++) gen_req_emit(m, FORM_AUTHORITY, 0, au, "", 0, v);
			continue;
		}
		if (0 == strcmp(METHODS[m], "OPTIONS") || 0 == strcmp(METHODS[m], "M-SEARCH")) /* 5.3.4; UPnP "M-SEARCH * HTTP/1.1" */
			gen_req_emit(m, FORM_ASTERISK, 0, 0, "", 0, v);
		for (depth = 0; depth <= 3; depth ++) {
			int combos = 1; for (i = 0; i < depth; i ++) combos *= NSEGS;
			for (n = 0; n < combos; n ++) {
				int x = n; for (i = 0; i < depth; i ++) { s[i] = x % NSEGS; x /= NSEGS; }
				for (lead = 0; lead <= 2; lead ++) for (trail = 0; trail <= 2; trail ++) {
					size_t o = 0;
					for (i = 0; i < lead; i ++) path[o ++] = '/';
					for (i = 0; i < depth; i ++) { path[o ++] = '/'; memcpy(path + o, SEGS[s[i]], strlen(SEGS[s[i]])); o += strlen(SEGS[s[i]]); }
					for (i = 0; i < trail; i ++) path[o ++] = '/';
					path[o] = 0;
					for (q = 0; q < NQUERIES; q ++) {
						if (o > 0) gen_req_emit(m, FORM_ORIGIN, 0, 0, path, q, v);	/* absolute-path = 1*( "/" segment ) */
						for (sc = 0; sc < 2; sc ++) for (au = 0; au < 3; au ++)
							gen_req_emit(m, FORM_ABSOLUTE, sc, au, path, q, v);	/* path-abempty */
					}
				}
			}
		}
	}
}

/* components longer than 16 bits can count: the grammar puts no bound on a segment, a query, a host or a scheme */
static void
long_req_case(int which, size_t L) {
	static const char *WN[4] = { "path", "query", "authority", "scheme" };
	size_t cap = L + 64, n = 0, po = 0, pl = 0, qo = 0, ql = 0, ho = 0, hl = 0, so = 0, sl = 0, hdr; uint8_t *buf; http_req_line_data_t d; int rc;
	if (!vh_begin("http_parse_req_line")) return;
	vh_desc("long request line: %s of %zu bytes", WN[which], L);
	buf = (uint8_t *)malloc(cap);
	memcpy(buf, "GET ", 4); n = 4;
	switch (which) {
	case 0: po = n; buf[n ++] = '/'; memset(buf + n, 'a', L); n += L; pl = L + 1; break;
	case 1: po = n; memcpy(buf + n, "/p?", 3); n += 3; pl = 2; qo = n; memset(buf + n, 'q', L); n += L; ql = L; break;
	case 2: so = n; memcpy(buf + n, "http://", 7); n += 7; sl = 4; ho = n; memset(buf + n, 'h', L); n += L; hl = L; po = n; memcpy(buf + n, "/p", 2); n += 2; pl = 2; break;
	default: so = n; memset(buf + n, 's', L); n += L; sl = L; memcpy(buf + n, "://h", 4); n += 4; ho = n - 1; hl = 1; po = n; memcpy(buf + n, "/p", 2); n += 2; pl = 2; break;
	}
	memcpy(buf + n, " HTTP/1.1\r\n\r\n", 13); n += 13;
	hdr = n;
	memset(&d, 0xA5, sizeof(d));
	rc = http_parse_req_line(buf, hdr, &d);
	if (0 != rc) vh_fail("wellformed-rejected", "rc=%d for a well-formed request line with a %s of %zu bytes", rc, WN[which], L);
	else if (d.abs_path != buf + po || d.abs_path_size != pl) vh_fail("path-span", "got off=%td len=%zu want off=%zu len=%zu", d.abs_path ? d.abs_path - buf : (ptrdiff_t)-1, (size_t)d.abs_path_size, po, pl);
	else if ((ql && d.query != buf + qo) || d.query_size != ql) vh_fail("query-span", "got len=%zu want off=%zu len=%zu", (size_t)d.query_size, qo, ql);
	else if ((hl && d.host != buf + ho) || d.host_size != hl) vh_fail("authority-span", "got len=%zu want off=%zu len=%zu", (size_t)d.host_size, ho, hl);
	else if ((sl && d.scheme != buf + so) || d.scheme_size != sl) vh_fail("scheme-span", "got len=%zu want off=%zu len=%zu", (size_t)d.scheme_size, so, sl);
	else vh_nontrivial();
	free(buf);
}
static void
gen_req_long(void) {
	static const size_t LS[4] = { 65535, 65536, 65537, 200001 };
	int w, i;
	for (w = 0; w < 4; w ++) for (i = 0; i < 4; i ++) long_req_case(w, LS[i]);
}

/* http_get_method_fast directly: table entries and near misses (tokens that are not in the table) */
static uint32_t
table_code(const char *tok, size_t l) { /* include/proto/http.h: HTTPReqMethod[] index, 0 = UNKNOWN */
	int m;
	for (m = 0; m < NMETHODS; m ++)
		if (strlen(METHODS[m]) == l && 0 == memcmp(METHODS[m], tok, l)) return (METHOD_CODE[m]);
	return (0);
}
static void
method_fast_case(const char *tok, size_t l) {
	uint8_t *p; uint32_t got, want = table_code(tok, l);
	if (!vh_begin("http_get_method_fast")) return;
	p = (uint8_t *)vh_dup(tok, l);
	g_buf = p; g_len = l; g_hdr = l; g_what = "method-token"; g_code = want;
	got = http_get_method_fast(p, l);
	if (got != want) vh_fail("method-code", "got %u want %u", got, want);
	else vh_nontrivial();
	vh_outcome(&got, sizeof(got));
	free(p);
}
static void
gen_method_fast(void) {
	int m; size_t l, i; char tok[32];
	for (m = 0; m < NMETHODS; m ++) {
		l = strlen(METHODS[m]);
		method_fast_case(METHODS[m], l);
		for (i = 0; i < l; i ++) { /* one character changed (keeps the length and, for i > 0, the first letter) */
			memcpy(tok, METHODS[m], l); tok[i] = (tok[i] == 'X') ? 'Y' : 'X'; method_fast_case(tok, l);
			memcpy(tok, METHODS[m], l); tok[i] = (char)(tok[i] | 0x20); method_fast_case(tok, l); /* case matters, 3.1.1 */
		}
		memcpy(tok, METHODS[m], l); tok[l] = 'S'; method_fast_case(tok, l + 1); /* one longer */
		if (l > 1) method_fast_case(METHODS[m], l - 1); /* proper prefix */
	}
}

/* ================================================================== status lines */
static const char *REASONS[] = { "", "OK", "Not Found", " ", "a\tb", "x  " };
static void
gen_resp_all(void) {
	int v, code, rs, ctx; char lb[64];

	for (v = 0; v < 2; v ++) for (code = 0; code < 1000; code ++) for (rs = 0; rs < 6; rs ++) for (ctx = 0; ctx < 2; ctx ++) {
		tb_t full; uint8_t *buf; size_t hdr; resp_t r; http_resp_line_data_t d; int rc, ok = 1;
		if (!vh_begin("http_parse_resp_line")) continue;
		snprintf(lb, sizeof(lb), "%s %03d %s", VERSIONS[v], code, REASONS[rs]);
		full.n = 0; tb_adds(&full, lb);
		if (ctx) tb_adds(&full, "\r\nX-A: v");
		tb_adds(&full, "\r\n\r\n");
		buf = (uint8_t *)vh_dup(full.b, full.n); hdr = find_hdr_size(buf, full.n);
		g_buf = buf; g_len = full.n; g_hdr = hdr; g_what = "resp"; g_code = (unsigned)code;
		if (0 != ref_parse_resp(buf, hdr, &r) || r.code != (unsigned)code || r.vmin != v || r.reason.len != strlen(REASONS[rs])) {
			selfcheck_mismatch ++; free(buf); continue;
		}
		memset(&d, 0xA5, sizeof(d));
		rc = http_parse_resp_line(buf, hdr, &d);
		if (rc != 0) { vh_fail("wellformed-rejected", "rc=%d for a well-formed status line", rc); free(buf); continue; }
		if (d.proto_ver != (v ? HTTP_VER_1_1 : HTTP_VER_1_0)) { ok = 0; vh_fail("version", "got 0x%x", d.proto_ver); }
		if (d.status_code != (uint32_t)code) { ok = 0; vh_fail("status-code", "got %u want %d", d.status_code, code); }
		if (!is_subspan(buf, hdr, d.reason_phrase, d.reason_phrase_size)) { ok = 0; vh_fail("subspan-reason", "outside the input"); }
		else if (d.reason_phrase_size != r.reason.len || (r.reason.len > 0 && d.reason_phrase != buf + r.reason.off)) {
			ok = 0; vh_fail("reason-span", "got off=%td len=%zu want off=%zu len=%zu", d.reason_phrase - buf, d.reason_phrase_size, r.reason.off, r.reason.len);
		}
		if (ok) vh_nontrivial();
		{ size_t o[3]; o[0] = d.status_code; o[1] = d.proto_ver; o[2] = d.reason_phrase_size; vh_outcome(o, sizeof(o)); }
		free(buf);
	}
}

/* ================================================================== header blocks */
enum { K_HOST = 0, K_CL, K_TE, K_XA, K_HOSTX, K_XHOST };
static const struct { const char *s; int kind; } NAMES[] = {
	{ "Host", K_HOST }, { "host", K_HOST }, { "HOST", K_HOST }, { "hOsT", K_HOST },
	{ "Content-Length", K_CL }, { "content-length", K_CL }, { "CONTENT-LENGTH", K_CL },
	{ "Transfer-Encoding", K_TE }, { "transfer-encoding", K_TE }, { "TRANSFER-ENCODING", K_TE },
	{ "X-A", K_XA }, { "x-a", K_XA }, { "Hostx", K_HOSTX }, { "HOSTX", K_HOSTX }, { "xHost", K_XHOST }, { "xhost", K_XHOST } };
#define NNAMES 16
/* the last three: a fold directly after the colon, a fold at the end of the value, both plus one inside
 * (used in blocks of <= 2 fields only, see gen_hdr_all) */
static const char *VALS[] = { "", "v", " v ", "v\r\n\t w", "\r\n\tv", "v\r\n ", "\r\n v\r\n\t w\r\n " };
static const size_t VTRIM_OFF[] = { 0, 0, 1, 0, 3, 0, 3 }, VTRIM_LEN[] = { 0, 1, 1, 6, 1, 1, 6 };
#define NVALS 7
#define NVALS_MAIN 4
#define NFC (NNAMES * NVALS)	/* field choices */
static size_t FLEN[NFC]; /* name + ':' + raw value */

/* request-line contexts for the header tests */
static const struct { const char *line; uint32_t code; } CTX[] = {
	{ "GET / HTTP/1.1", HTTP_REQ_METHOD_GET },
	{ "POST http://h:80/a?q=1 HTTP/1.1", HTTP_REQ_METHOD_POST },
	{ "PATCH /a HTTP/1.0", HTTP_REQ_METHOD_UNKNOWN },
	/* every method code, used for blocks of <= 2 fields */
	{ "OPTIONS * HTTP/1.1", 1 }, { "HEAD / HTTP/1.1", 3 }, { "PUT / HTTP/1.1", 5 }, { "DELETE / HTTP/1.1", 6 },
	{ "TRACE / HTTP/1.1", 7 }, { "CONNECT h:80 HTTP/1.1", 8 }, { "NOTIFY / HTTP/1.1", 9 }, { "M-SEARCH * HTTP/1.1", 10 },
	{ "M-POST / HTTP/1.1", 11 }, { "SUBSCRIBE / HTTP/1.1", 12 }, { "UNSUBSCRIBE / HTTP/1.1", 13 } };
#define NCTX_MAIN 3
#define NCTX_ALL 14

typedef struct { size_t noff, nlen, voff, vlen; int kind; } gfld_t;

/* text = line CRLF f0 CRLF f1 ... (no trailing CRLF); returns block length, fills generator spans */
static size_t
build_block(tb_t *t, int ctx, const int *fc, int n, gfld_t *gf) {
	int i;
	t->n = 0; tb_adds(t, CTX[ctx].line);
	for (i = 0; i < n; i ++) {
		int ni = fc[i] / NVALS, vi = fc[i] % NVALS; size_t v;
		tb_adds(t, "\r\n");
		gf[i].noff = t->n; gf[i].nlen = strlen(NAMES[ni].s); gf[i].kind = NAMES[ni].kind;
		tb_adds(t, NAMES[ni].s); tb_adds(t, ":"); v = t->n; tb_adds(t, VALS[vi]);
		gf[i].voff = v + VTRIM_OFF[vi]; gf[i].vlen = VTRIM_LEN[vi];
	}
	return (t->n);
}

static const char *QNAMES[] = { "host", "HOST", "content-length", "Transfer-Encoding", "x-a", "hostx", "XHOST", "hos", "x-b" };
#define NQ 9

/* generator's structural verdict (used to decide which blocks are edit bases, and as self check) */
static const char *
gen_pattern(const gfld_t *gf, int n, uint32_t mcode) {
	int i, nh = 0, ncl = 0, nte = 0;
	for (i = 0; i < n; i ++) { nh += gf[i].kind == K_HOST; ncl += gf[i].kind == K_CL; nte += gf[i].kind == K_TE; }
	if (nh > 1) return ("dup-host");
	if (ncl > 1) return ("dup-content-length");
	if (nte > 1) return ("dup-transfer-encoding");
	if (ncl && nte) return ("cl+te");
	if (ncl && mcode == HTTP_REQ_METHOD_GET) return ("cl-on-get");
	return (NULL);
}
static int
kinds_pattern(const int *fc, int n, uint32_t mcode) {
	int i, nh = 0, ncl = 0, nte = 0;
	for (i = 0; i < n; i ++) { int k = NAMES[fc[i] / NVALS].kind; nh += k == K_HOST; ncl += k == K_CL; nte += k == K_TE; }
	return (nh > 1 || ncl > 1 || nte > 1 || (ncl && nte) || (ncl && mcode == HTTP_REQ_METHOD_GET));
}

#define SEC_ARENA 1024
static uint8_t *sec_arena = NULL;
/* run http_req_sec_chk on exactly these bytes (+ CRLFCRLF) and compare with the reference */
static void
sec_case_run(const uint8_t *text, size_t len, uint32_t mcode, const char *gen_label, int gen_known, const char *what) {
	uint8_t *buf; size_t hdr; const char *lab; int rc; char clause[64];

	/* hot path: instead of one malloc per case the text is placed flush against the END of one heap
	 * block, so the ASan redzone still starts right behind the CRLFCRLF */
	if (NULL == sec_arena) sec_arena = (uint8_t *)malloc(SEC_ARENA);
	buf = sec_arena + SEC_ARENA - (len + 4);
	memcpy(buf, text, len); memcpy(buf + len, "\r\n\r\n", 4);
	hdr = find_hdr_size(buf, len + 4);
	g_buf = buf; g_len = len + 4; g_hdr = hdr; g_what = what; g_code = mcode;
	lab = ref_sec_pattern(buf, hdr, mcode);
	if (gen_known && ((NULL == lab) != (NULL == gen_label) || (lab && 0 != strcmp(lab, gen_label)))) {
		selfcheck_mismatch ++;
		if (selfcheck_mismatch < 4) fprintf(stderr, "selfcheck(sec): ref=%s gen=%s %s\n", lab ? lab : "-", gen_label ? gen_label : "-", vh_get_desc());
		return;
	}
	rc = http_req_sec_chk(buf, hdr, mcode);
	if (NULL != lab) {
		n_sec_expect_reject ++;
		if (0 == rc) { snprintf(clause, sizeof(clause), "accepted:%s", lab); vh_fail(clause, "rc=0 although the block contains the listed pattern '%s'", lab); }
		else vh_nontrivial();
	} else {
		n_sec_expect_accept ++;
		if (0 != rc) vh_fail("rejected-clean", "rc=%d for a grammar-generated block with none of the listed patterns", rc);
		else vh_nontrivial();
	}
	vh_outcome(&rc, sizeof(rc));
}

/* control bytes: everything below SP except HTAB, plus DEL */
static uint8_t CTLS[32]; static int NCTLS = 0;
/* neighbours of the three exempted octets HTAB(09) LF(0a) CR(0d) and the range ends */
static const uint8_t CTLS_BOUNDARY[] = { 0x00, 0x01, 0x08, 0x0a, 0x0b, 0x0c, 0x0d, 0x0e, 0x1f, 0x7f };

static void
hdr_block(const int *fc, int n, int do_ctl /* 0 none, 1 boundary set, 2 all 32 */, int do_spc, int do_ins) {
	tb_t t; gfld_t gf[MAXF]; size_t len; uint8_t *buf = NULL; size_t hdr = 0; fld_t rf[MAXF]; int nrf = 0, have = 0, q, i, c, nctx;
	int mine_get, mine_cnt;

	n_blocks ++;
	/* ---- lookup: context 1 (request line with colons in it) */
	mine_get = vh_begin("http_hdr_val_get_ex");
	if (mine_get) {
		int ok = 1;
		len = build_block(&t, 1, fc, n, gf); tb_adds(&t, "\r\n\r\n");
		buf = (uint8_t *)vh_dup(t.b, t.n); hdr = find_hdr_size(buf, t.n);
		g_buf = buf; g_len = t.n; g_hdr = hdr; g_what = "hdr-lookup"; g_code = CTX[1].code;
		have = 1;
		if (hdr != len || 0 != ref_parse_fields(buf, hdr, rf, &nrf) || nrf != n) { selfcheck_mismatch ++; ok = 0; if (selfcheck_mismatch < 4) fprintf(stderr, "selfcheck(fields): hdr=%zu len=%zu nrf=%d n=%d %s\n", hdr, len, nrf, n, vh_get_desc()); }
		for (i = 0; ok && i < n; i ++)
			if (rf[i].noff != gf[i].noff || rf[i].nlen != gf[i].nlen || rf[i].voff != gf[i].voff || rf[i].vlen != gf[i].vlen) {
				/* an empty value may legitimately be located anywhere by the two descriptions */
				if (!(rf[i].vlen == 0 && gf[i].vlen == 0 && rf[i].noff == gf[i].noff && rf[i].nlen == gf[i].nlen)) { selfcheck_mismatch ++; ok = 0; if (selfcheck_mismatch < 4) fprintf(stderr, "selfcheck(field %d): ref n=%zu+%zu v=%zu+%zu gen n=%zu+%zu v=%zu+%zu %s\n", i, rf[i].noff, rf[i].nlen, rf[i].voff, rf[i].vlen, gf[i].noff, gf[i].nlen, gf[i].voff, gf[i].vlen, vh_get_desc()); }
			}
		for (q = 0; ok && q < NQ; q ++) {
			size_t ql = strlen(QNAMES[q]), off = 0, next; int idx[MAXF], nm = 0, k = 0, it;
			const uint8_t *val; size_t vsz;
			for (i = 0; i < nrf; i ++) if (ci_eq(buf + rf[i].noff, rf[i].nlen, QNAMES[q], ql)) idx[nm ++] = i;
			for (it = 0; it <= n + 1; it ++) {
				val = NULL; vsz = 7777; next = off;
				if (0 != http_hdr_val_get_ex(buf, hdr, (const uint8_t *)QNAMES[q], ql, off, &val, &vsz, &next)) break;
				if (k >= nm) { ok = 0; vh_fail("extra-match", "lookup '%s' returned a %d. field at off=%td; only %d field(s) have that name", QNAMES[q], k + 1, val ? val - buf : (ptrdiff_t)-1, nm); break; }
				if (!is_subspan(buf, hdr, val, vsz) || NULL == val) { ok = 0; vh_fail("subspan-value", "lookup '%s' #%d: value outside the input", QNAMES[q], k); break; }
				if (vsz != rf[idx[k]].vlen || (vsz > 0 && val != buf + rf[idx[k]].voff)) {
					ok = 0; vh_fail("value-span", "lookup '%s' #%d: got off=%td len=%zu want off=%zu len=%zu", QNAMES[q], k, val - buf, vsz, rf[idx[k]].voff, rf[idx[k]].vlen); break;
				}
				k ++;
				if (next <= off) { ok = 0; vh_fail("iteration-no-progress", "lookup '%s': offset_next=%zu after offset=%zu", QNAMES[q], next, off); break; }
				off = next;
			}
			if (ok && k < nm) { ok = 0; vh_fail("missed-match", "lookup '%s' returned %d of %d matching field(s)", QNAMES[q], k, nm); }
			if (ok) { /* http_hdr_val_get = first match */
				val = NULL; vsz = 7777;
				int rc = http_hdr_val_get(buf, hdr, (const uint8_t *)QNAMES[q], ql, &val, &vsz);
				if ((0 == rc) != (nm > 0)) { ok = 0; vh_fail(nm ? "missed-match" : "extra-match", "http_hdr_val_get('%s') rc=%d with %d matching field(s)", QNAMES[q], rc, nm); }
				else if (0 == rc && (vsz != rf[idx[0]].vlen || (vsz > 0 && val != buf + rf[idx[0]].voff))) { ok = 0; vh_fail("value-span", "http_hdr_val_get('%s') is not the first field's value", QNAMES[q]); }
			}
			if (ok) { size_t o[3]; o[0] = (size_t)q; o[1] = (size_t)nm; o[2] = nm ? rf[idx[0]].vlen : 0; vh_outcome(o, sizeof(o)); }
		}
		if (ok && n > 0) vh_nontrivial();
	}
	mine_cnt = vh_begin("http_hdr_val_get_count");
	if (mine_cnt) {
		int ok = 1;
		if (!have) {
			len = build_block(&t, 1, fc, n, gf); tb_adds(&t, "\r\n\r\n");
			buf = (uint8_t *)vh_dup(t.b, t.n); hdr = find_hdr_size(buf, t.n);
			have = 1;
			if (0 != ref_parse_fields(buf, hdr, rf, &nrf) || nrf != n) { selfcheck_mismatch ++; ok = 0; }
		}
		g_buf = buf; g_len = t.n; g_hdr = hdr; g_what = "hdr-count"; g_code = CTX[1].code;
		for (q = 0; ok && q < NQ; q ++) {
			size_t ql = strlen(QNAMES[q]), got; size_t nm = 0;
			for (i = 0; i < nrf; i ++) if (ci_eq(buf + rf[i].noff, rf[i].nlen, QNAMES[q], ql)) nm ++;
			got = http_hdr_val_get_count(buf, hdr, (const uint8_t *)QNAMES[q], ql);
			if (got != nm) { ok = 0; vh_fail("count", "count('%s') = %zu, true multiplicity %zu", QNAMES[q], got, nm); }
			else { size_t o[2]; o[0] = (size_t)q; o[1] = got; vh_outcome(o, sizeof(o)); }
		}
		if (ok && n > 0) vh_nontrivial();
	}
	if (have) free(buf);

	/* ---- security check on the block as generated, in every context */
	nctx = (n <= 2) ? NCTX_ALL : NCTX_MAIN;
	for (c = 0; c < nctx; c ++) {
		if (!vh_begin("http_req_sec_chk")) continue;
		len = build_block(&t, c, fc, n, gf);
		sec_case_run(t.b, len, CTX[c].code, gen_pattern(gf, n, CTX[c].code), 1, "block");
	}

	/* ---- single edits that introduce one listed pattern, applied to clean (block, context) pairs */
	if (!do_ctl && !do_spc && !do_ins) return;
	for (c = 0; c < NCTX_MAIN; c ++) {
		size_t blen, pos; int ci, f, p, built = 0; const uint8_t *ctls; int nctls; tb_t e;
		if (kinds_pattern(fc, n, CTX[c].code)) continue;
		n_clean_bases ++;
		blen = strlen(CTX[c].line); for (i = 0; i < n; i ++) blen += 2 + FLEN[fc[i]];
		/* (1) one control byte inserted at every position 0..blen.  Contexts: GET and POST. */
		if (do_ctl && c < 2) {
			if (do_ctl == 2) { ctls = CTLS; nctls = NCTLS; } else { ctls = CTLS_BOUNDARY; nctls = (int)sizeof(CTLS_BOUNDARY); }
			for (pos = 0; pos <= blen; pos ++) for (ci = 0; ci < nctls; ci ++) {
				n_edit_ctl ++;
				if (!vh_begin("http_req_sec_chk")) continue;
				if (!built) { build_block(&t, c, fc, n, gf); built = 1; }
				e.n = 0; tb_add(&e, t.b, pos); tb_add(&e, &ctls[ci], 1); tb_add(&e, t.b + pos, blen - pos);
				sec_case_run(e.b, e.n, CTX[c].code, "ctl", 1, "edit:ctl-insert");
			}
		}
		/* (2) SP directly before the colon of each field */
		if (do_spc) for (f = 0; f < n; f ++) {
			n_edit_spc ++;
			if (!vh_begin("http_req_sec_chk")) continue;
			if (!built) { build_block(&t, c, fc, n, gf); built = 1; }
			pos = gf[f].noff + gf[f].nlen;
			e.n = 0; tb_add(&e, t.b, pos); tb_adds(&e, " "); tb_add(&e, t.b + pos, blen - pos);
			sec_case_run(e.b, e.n, CTX[c].code, "sp-colon", 1, "edit:sp-before-colon");
		}
		/* (3) one more framing field (every case spelling, every value) at every position, when that
		 *     introduces a pattern: duplicate Host/CL/TE, CL next to TE, CL on GET */
		if (do_ins && n < MAXF - 1) for (p = 0; p <= n; p ++) for (f = 0; f < 10 * NVALS; f ++) { /* NAMES[0..9] are the framing fields */
			int fc2[MAXF];
			for (i = 0; i < p; i ++) fc2[i] = fc[i];
			fc2[p] = f;
			for (i = p; i < n; i ++) fc2[i + 1] = fc[i];
			if (!kinds_pattern(fc2, n + 1, CTX[c].code)) continue; /* not a smuggling edit */
			n_edit_ins ++;
			if (!vh_begin("http_req_sec_chk")) continue;
			{ gfld_t g2[MAXF]; tb_t t2; size_t l2 = build_block(&t2, c, fc2, n + 1, g2);
			  sec_case_run(t2.b, l2, CTX[c].code, gen_pattern(g2, n + 1, CTX[c].code), 1, "edit:field-insert"); }
		}
	}
}

static void
gen_hdr_all(void) {
	int nmax = vh_thorough ? 4 : 3, n, i, fc[MAXF];

	for (i = 0; i < 0x20; i ++) if (i != '\t') CTLS[NCTLS ++] = (uint8_t)i;
	CTLS[NCTLS ++] = 0x7f;
	for (i = 0; i < NFC; i ++) FLEN[i] = strlen(NAMES[i / NVALS].s) + 1 + strlen(VALS[i % NVALS]);
	for (n = 0; n <= nmax; n ++) {
		for (i = 0; i < n; i ++) fc[i] = 0;
		for (;;) {
			/* edit bases: clean blocks of <= 2 fields get every edit with all 32 control bytes (both tiers);
			 * clean 3-field blocks: SP-before-colon (both tiers); thorough adds control bytes from the
			 * 10-element boundary set at every position (the adjacent-byte contexts of an insertion are
			 * the same as in 2-field blocks).  Field-insert edits of 3-field bases would only produce
			 * 4-field blocks, all of which the thorough walk visits anyway. */
			for (i = 0; n > 2 && i < n; i ++) if (fc[i] % NVALS >= NVALS_MAIN) break;
			if (n > 2 && i < n) goto next_tuple;	/* edge folds: blocks of <= 2 fields only */
			if (n <= 2) hdr_block(fc, n, 2, 1, 1);
			else if (n == 3) hdr_block(fc, n, vh_thorough ? 1 : 0, 1, 0);
			else hdr_block(fc, n, 0, 0, 0);
next_tuple:
			for (i = n - 1; i >= 0; i --) { if (++ fc[i] < NFC) break; fc[i] = 0; }
			if (i < 0) break;
		}
	}
}

int
main(int argc, char **argv) {
	vh_init(argc, argv);
	vh_set_describer(describe);
	gen_method_fast();
	gen_req_all();
	vh_set_describer(NULL);
	gen_req_long();
	vh_set_describer(describe);
	gen_resp_all();
	gen_hdr_all();
	printf("NOTE\tselfcheck_mismatch=%llu\n", (unsigned long long)selfcheck_mismatch);
	printf("NOTE\tsec_expect_reject=%llu\n", (unsigned long long)n_sec_expect_reject);
	printf("NOTE\tsec_expect_accept=%llu\n", (unsigned long long)n_sec_expect_accept);
	if (0 == vh_shard) { /* enumeration-side counters are identical in every shard */
		printf("NOTE\thdr_blocks=%llu\n", (unsigned long long)n_blocks);
		printf("NOTE\tclean_edit_bases=%llu\n", (unsigned long long)n_clean_bases);
		printf("NOTE\tedits_ctl=%llu\n", (unsigned long long)n_edit_ctl);
		printf("NOTE\tedits_sp_colon=%llu\n", (unsigned long long)n_edit_spc);
		printf("NOTE\tedits_field_insert=%llu\n", (unsigned long long)n_edit_ins);
	}
	return (vh_finish());
}
