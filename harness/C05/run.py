import os
from vlib import core, e1

FL = [('0', '0'), ('SD', 'TP_MSG_F_SELF_DIRECT'), ('FORCE', 'TP_MSG_F_FORCE'), ('FD', 'TP_MSG_F_FAIL_DIRECT'),
      ('SD+FD', 'TP_MSG_F_SELF_DIRECT|TP_MSG_F_FAIL_DIRECT'), ('ALL', 'TP_MSG_F__ALL__')]
STATE = [('allrun', -1, 0), ('t0-notstarted', 0, 1), ('t1-detached', 1, 2)]


def variants():
    out = []
    for W in (1, 2, 3, 16):
        for fn, fc in FL:
            for sn, notrun, mode in STATE:
                if W == 1 and notrun >= 0:
                    continue
                if W == 16 and (notrun >= 0 or fn not in ('0', 'ALL')):
                    continue
                for faults in (0, 1):
                    wk = 1 if notrun == 0 else 0           # a running worker that sends
                    other = (wk + 1) % W if W > 1 else -1
                    sends = []
                    t1 = 1 if W > 1 else 0
                    sends += [(1, 0, fc), (1, 0, fc), (1, t1, fc), (2, 0, fc)]
                    sends += [(10 + wk, -1, fc)]
                    if other >= 0:
                        sends += [(10 + wk, other, fc)]
                    if W >= 3:
                        sends += [(10 + 2, 0, fc)]          # a third concurrent pool sender
                    name = 'msg/W%d/%s/%s/%s' % (W, fn, sn, 'wfault' if faults else 'nofault')
                    out.append((name, W, notrun, mode, faults, sends))
                    if W == 2:   # small variant: two senders, same destination + a self-send; affordable at a deeper bound
                        small = [(1, other if other >= 0 else 0, fc), (1, other if other >= 0 else 0, fc), (10 + wk, other, fc), (10 + wk, -1, fc)]
                        out.append(('msgS/W%d/%s/%s/%s' % (W, fn, sn, 'wfault' if faults else 'nofault'), W, notrun, mode, faults, small))
        # backlog: destination kept busy by gates, a batch plus newer messages in its queue when it sends from a callback
        if W == 2:
            for fn, fc in FL:
                for faults in (0, 1):
                    sends = [(1, 0, '0'), (1, 0, '0'), (1, 0, '0'), (1, 0, '0'), (10, -1, fc), (10, 1, fc)]
                    out.append(('backlog/W%d/%s/%s' % (W, fn, 'wfault' if faults else 'nofault'), W, -1, 0, faults, sends))
        # virtual thread carries a message and a user event while every worker is busy
        if W in (1, 2):
            for faults in (0, 1):
                sends = [(1, W, '0'), (1, W, '0')]
                out.append(('pvtmix/W%d/%s' % (W, 'wfault' if faults else 'nofault'), W, -1, 0, faults, sends))
        # a thread that attached as pool thread 0 and left again sends as an outside thread (thread 0 is stopped then)
        if W == 2:
            for fn, fc in FL:
                sends = [(1, 0, fc), (1, 1, fc), (1, 0, fc)]
                out.append(('attach/W%d/%s' % (W, fn), W, 0, 2, 0, sends))
        # a really full queue (one-page pipes): thread 0 floods its own queue from a callback
        if W == 1:
            for fn, fc in FL:
                out.append(('fullq/W%d/%s' % (W, fn), W, -1, 0, 0, [(10, -1, fc)]))
        # messages accepted by a busy thread, then tp_shutdown(): they stand in front of the shutdown message
        if W in (1, 2):
            out.append(('latesend/W%d' % W, W, -1, 0, 0, [(1, W - 1, '0')]))
        # sends to threads created a moment ago (not yet run), then shutdown; sends to a thread inside its stop hook
        if W in (1, 2):
            out.append(('earlysend/W%d' % W, W, -1, 0, 0, [(1, W - 1, '0')]))
            out.append(('stopsend/W%d' % W, W, -1, 0, 0, [(1, W - 1, '0')]))
            out.append(('stopsend/W%d/pvt' % W, W, -1, 1, 0, [(1, W, '0')]))       # ... and to the pool's virtual thread after tp_shutdown()
            out.append(('detachsend/W%d' % W, W, -1, 0, 0, [(1, W - 1, '0')]))
        # pool virtual thread as destination
        for faults in (0, 1):
            sends = [(1, W, '0'), (1, W, '0'), (2, W, '0'), (10, W, '0'), (1, 0, '0')]
            out.append(('pvt/W%d/%s' % (W, 'wfault' if faults else 'nofault'), W, -1, 0, faults, sends))
    return out


def gen_header(path, vs):
    with open(path, 'w') as f:
        f.write('static const mvar_t variants[] = {\n')
        for v in vs:
            name, W, notrun, mode, faults, sends = v
            f.write('\t{ %d, %d, %d, %d, %d, { %s } },\n' % (W, notrun, mode, faults, len(sends),
                    ', '.join('{ %d, %d, %s }' % s for s in sends)))
        f.write('};\nconst sc_scenario_t sc_scenarios[] = {\n')
        for i, v in enumerate(vs):
            f.write('\t{ "%s", %s, %d },\n' % (v[0], {'backlog': 'backlog_scenario', 'pvtmix': 'pvtmix_scenario', 'attach': 'attach_scenario', 'fullq': 'fullq_scenario', 'latesend': 'latesend_scenario', 'earlysend': 'earlysend_scenario', 'stopsend': 'stopsend_scenario', 'detachsend': 'detachsend_scenario'}.get(v[0].split('/')[0], 'msg_scenario'), i))
        f.write('};\nconst int sc_nscenarios = %d;\n' % len(vs))


def plan(tier, vs):
    jobs = []
    for v in vs:
        name, W, notrun, mode, faults, sends = v
        kind = name.split('/')[0]
        if kind == 'fullq':
            jobs.append((name, 0, 0))       # 140 sends: the default schedule only (the kernel decides where the queue is full)
            continue
        if kind in ('latesend', 'earlysend', 'stopsend', 'detachsend'):
            jobs.append((name, 1 if tier == 'quick' else 2, 1 if tier == 'quick' else 2))
            continue
        if tier == 'quick':
            if kind in ('backlog', 'pvtmix', 'attach'):
                jobs.append((name, 2, 1))
            elif kind == 'msgS':
                jobs.append((name, 1 if faults else 2, 1))
            elif W == 2:
                jobs.append((name, 1, 1))
            elif W == 1 and not faults:
                jobs.append((name, 2, 1))
            elif W == 3 and not faults and notrun < 0 and (kind == 'pvt' or name.split('/')[2] in ('0', 'ALL')):
                jobs.append((name, 1, 0))
        else:
            if kind in ('backlog', 'pvtmix', 'attach'):
                jobs.append((name, 3, 2))
            elif kind == 'msgS' or W == 1:
                jobs.append((name, 2 if faults else 3, 2))
            elif W == 2:
                jobs.append((name, 2, 1))
            elif W == 3:
                jobs.append((name, 1 if faults else 2, 1))
            else:
                jobs.append((name, 1, 0))
    return jobs


def _build():
    vs = variants()
    bdir = core.build_dir('C05')
    gen_header(os.path.join(bdir, 'c05_variants.h'), vs)
    return vs, e1.build('C05', 'h_c05', ['harness/C05/h_c05.c'], ['-I' + bdir])


def run(tier):
    rep = core.Report('C05', tier, 'model_checking',
        'stateless deviation-bounded DFS over schedules and write() faults; one case = one complete execution of a '
        'multi-sender message scenario on the real pool; non-trivial = any execution other than the default schedule')
    vs, b = _build()
    e1.run_jobs(rep, b, plan(tier, vs), tier, job_deadline_s=(300 if tier == 'quick' else 1500))
    e1.finish(rep, b, tier)


def replay(r, tier):
    vs, b = _build()
    return e1.replay(b, r)
