/* C05 - thread-pool messages are delivered exactly once, in order, on the right thread.
 * Scenarios for the E1 explorer.  Real threadpool.c / threadpool_msg_sys.c. */
#include "tp/tp_common.h"

#define MAXS 8
typedef struct send_s {
	int	sender;		/* 1,2 = external threads A,B; 10+i = worker i (runs its sends inside a seeded callback) */
	int	dst;		/* 0..W-1 worker index, W = pool virtual thread, -1 = the sending worker itself */
	uint32_t flags;
} send_t;

typedef struct mvar_s {
	int	W;
	int	notrun;		/* -1: all running; else thread index that is not running */
	int	notrun_mode;	/* 1 = never started (index 0, skip_first), 2 = detached before the sends */
	int	faults;		/* write() fault menu on for the sends */
	int	nsends;
	send_t	sends[MAXS];
} mvar_t;

static const mvar_t *cur;
static int s_rc[MAXS], s_begin[MAXS], s_ret[MAXS], s_tid[MAXS], s_realdst[MAXS];

static void
msg_cb(tpt_p tpt, void *udata) {
	tpt_p curt = tpt_get_current();
	tpc_add(E_CB_BEGIN, (int)tpt_get_num(tpt), (long)(intptr_t)udata, (NULL != curt) ? (long)tpt_get_num(curt) : -1, 0);
	sc_point("in-msg-cb");
	tpc_add(E_CB_END, (int)tpt_get_num(tpt), (long)(intptr_t)udata, 0, 0);
}

static void
do_one(int k, tpt_p self) {
	int rc, dst;
	tpt_p d;

	dst = cur->sends[k].dst;
	if (dst < 0) {
		d = self;
		s_realdst[k] = (int)tpt_get_num(self);
	} else if (dst == cur->W) {
		d = tp_thread_get_pvt(tpc_tp);
		s_realdst[k] = cur->W;
	} else {
		d = tp_thread_get(tpc_tp, (size_t)dst);
		s_realdst[k] = dst;
	}
	s_tid[k] = sc_self();
	s_begin[k] = tpc_add(E_CALL_BEGIN, -1, 100 + k, (long)cur->sends[k].flags, (long)s_realdst[k]);
	if (cur->faults)
		sc_fault_mask = SC_F_WRITE;
	rc = tpt_msg_send(d, NULL, cur->sends[k].flags, msg_cb, (void *)(intptr_t)(100 + k));
	sc_fault_mask = 0;
	s_rc[k] = rc;
	s_ret[k] = tpc_add(E_CALL_RET, -1, 100 + k, (long)rc, 0);
}

static void
do_sends(int sender, tpt_p self) {
	int k;

	for (k = 0; k < cur->nsends; k ++) {
		if (cur->sends[k].sender == sender)
			do_one(k, self);
	}
}

static void *
ext_sender(void *arg) {
	do_sends((int)(intptr_t)arg, NULL);
	return (NULL);
}

static void
worker_seed_cb(tpt_p tpt, void *udata) {
	do_sends((int)(intptr_t)udata, tpt);
}

static int detach_cb_runs = 0;
static void
detach_cb(tpt_p tpt, void *udata) {
	(void)udata;
	detach_cb_runs ++;
	tp_thread_dettach(tpt);
}

/* the scenarios' own set-up sends are sends like any other: a failure report together with a callback run is the
 * property's "a send that reports failure never runs the callback", not a problem of the harness */
static void
setup_send_verdict(int rc, int runs, const char *what) {
	if (0 == rc && 1 == runs) return;
	if (0 != rc && runs > 0)
		sc_fail("failed-send-ran-callback", "%s: tpt_msg_send returned %d but its callback ran %d time(s)", what, rc, runs);
	if (0 == rc && runs > 1)
		sc_fail("message-duplicated", "%s: callback ran %d times", what, runs);
	if (0 == rc && 0 == runs)
		sc_fail("message-lost", "%s: accepted by a running thread, never ran", what);
	sc_fail("harness", "%s rc=%d", what, rc);
}

/* ---- backlog scenarios: the destination is kept busy (gates) so that its queue holds a batch and
 * newer messages when a pool thread sends from inside a message callback. ---- */
static volatile int gate1, gate2;

static void
gate_cb(tpt_p tpt, void *udata) {
	(void)udata;
	sc_log("gate callback entered on thread %d", (int)tpt_get_num(tpt));
	sc_gate_wait(&gate1, "gate1");
}

static void
bl_seed_cb(tpt_p tpt, void *udata) {
	(void)udata;
	sc_log("seed callback entered on thread %d", (int)tpt_get_num(tpt));
	sc_gate_wait(&gate2, "gate2");
	do_sends(10 + (int)tpt_get_num(tpt), tpt);
}

static void msg_scenario(int idx);
static void check_sends(const mvar_t *v);
static void backlog_scenario(int idx);
static void pvtmix_scenario(int idx);
static void attach_scenario(int idx);
static void fullq_scenario(int idx);
static void latesend_scenario(int idx);
static void earlysend_scenario(int idx);
static void stopsend_scenario(int idx);
static void detachsend_scenario(int idx);
#include "c05_variants.h"

/* ---- the pool virtual thread carries a message AND a user event at the same time, while the worker(s) are
 * busy: both must be handled once the workers are free (nothing may be lost behind the nested epoll). ---- */
#include <fcntl.h>
#include <unistd.h>
static int pm_pipe[2];
static tp_udata_t pm_ud;
static int pm_fired = 0;

static void
pm_ev_cb(tp_event_p ev, tp_udata_p u) {
	(void)ev; (void)u;
	pm_fired ++;
	sc_log("user event on the virtual thread fired (%d)", pm_fired);
}

static void
pvtmix_scenario(int idx) {
	const mvar_t *v = &variants[idx];
	int k, rc, i;

	cur = v;
	for (k = 0; k < MAXS; k ++) { s_rc[k] = -12345; s_begin[k] = s_ret[k] = -1; s_tid[k] = -1; s_realdst[k] = -1; }
	tpc_up(v->W, 0);
	gate1 = 0;
	for (i = 0; i < v->W; i ++) {	/* every worker is busy inside a callback */
		rc = tpt_msg_send(tp_thread_get(tpc_tp, (size_t)i), NULL, 0, gate_cb, NULL);
		if (0 != rc) sc_fail("harness", "gate send rc=%d", rc);
	}
	sc_wait_quiescent();
	if (0 != pipe2(pm_pipe, O_NONBLOCK) || 1 != write(pm_pipe[1], "x", 1))
		sc_fail("harness", "pipe");
	memset(&pm_ud, 0, sizeof(pm_ud));
	pm_ud.cb_func = pm_ev_cb;
	pm_ud.ident = (uintptr_t)pm_pipe[0];
	pm_fired = 0;
	rc = tpt_ev_add_args2(tp_thread_get_pvt(tpc_tp), TP_EV_READ, TP_F_ONESHOT, &pm_ud);
	if (0 != rc) sc_fail("harness", "event add on the virtual thread rc=%d", rc);
	do_sends(1, NULL);		/* the external sender's messages to the virtual thread */
	gate1 = 1;
	sc_wait_quiescent();
	if (1 != pm_fired)
		sc_log("note: one-shot event on the virtual thread fired %d time(s)", pm_fired); /* C06's business, not judged here */
	check_sends(v);
}

/* ---- a thread that ran pool thread 0 through tp_thread_attach_first() and left it again is an ordinary outside
 * thread afterwards: its sends must be treated as coming from outside. ---- */
static int probe_runs = 0, probe_tid = -1, probe_cur = -2;
static volatile int probe_started = 0, attach_gate = 0;
static int tail_runs = 0, tail_sent_ok = 0, tail_wrong_thread = 0;
static void
attach_probe_cb(tpt_p tpt, void *udata) {	/* an ordinary message handled while the outside thread is pool thread 0 */
	tpt_p c = tpt_get_current();
	(void)udata; (void)tpt;
	probe_runs ++;
	probe_tid = sc_self();
	probe_cur = (NULL != c) ? (int)tpt_get_num(c) : -1;
	sc_log("probe callback on attached thread: current=%d", probe_cur);
	/* parked here while the helper queues the detach message and two more behind it: the three are then
	 * fetched by one read, and the two must still run although the thread stops in between */
	probe_started = 1;
	sc_gate_wait(&attach_gate, "attach_gate");
}

static void
attach_tail_cb(tpt_p tpt, void *udata) {
	(void)udata; (void)tpt;
	tail_runs ++;
	if (0 != sc_self()) tail_wrong_thread ++;
}

static int attach_detach_runs = 0, attach_detach_rc = -12345;
static void
attach_detach_cb(tpt_p tpt, void *udata) {
	(void)udata;
	attach_detach_runs ++;
	tp_thread_dettach(tpt);
}

static void
attach_scenario(int idx) {
	const mvar_t *v = &variants[idx];
	int k, rc;

	cur = v;
	for (k = 0; k < MAXS; k ++) { s_rc[k] = -12345; s_begin[k] = s_ret[k] = -1; s_tid[k] = -1; s_realdst[k] = -1; }
	rc = tpc_create(v->W);
	if (0 != rc) sc_fail("harness", "tp_create rc=%d", rc);
	rc = tp_threads_create(tpc_tp, 1);	/* thread 0 is left for the attaching thread */
	if (0 != rc) sc_fail("harness", "tp_threads_create rc=%d", rc);
	/* thread 0 will leave its loop as soon as it processes this message (state STARTING counts as running for the send) */
	(void)tp_thread_get(tpc_tp, 0);
	{	/* mark thread 0 as starting the way attach_first does, queue the detach, then attach */
		tpt_p t0 = tp_thread_get(tpc_tp, 0);
		/* the send needs a running/starting destination: attach first sets STARTING itself, so queue from a helper */
		(void)t0;
	}
	{
		pthread_t helper;
		extern void *c05_detach_sender(void *);
		pthread_create(&helper, NULL, c05_detach_sender, NULL);
		rc = tp_thread_attach_first(tpc_tp);	/* runs pool thread 0 on THIS thread until the detach message arrives */
		if (0 != rc) sc_fail("harness", "attach_first rc=%d", rc);
		pthread_join(helper, NULL);
	}
	sc_wait_quiescent();
	setup_send_verdict(attach_detach_rc, attach_detach_runs, "detach message to the attached thread");
	if (1 != probe_runs || 0 != probe_tid || 0 != probe_cur)
		sc_fail("attached-thread-message", "message to the attached thread 0: ran %d time(s), on scheduler thread T%d, tpt_get_current()=%d", probe_runs, probe_tid, probe_cur);
	if (tail_runs < tail_sent_ok)
		sc_fail("message-lost", "%d message(s) were accepted behind the detach message while thread 0 was busy (same read), %d ran", tail_sent_ok, tail_runs);
	if (tail_runs > tail_sent_ok)
		sc_fail("message-duplicated", "%d message(s) accepted behind the detach message, %d callback runs", tail_sent_ok, tail_runs);
	if (tail_wrong_thread)
		sc_fail("wrong-os-thread", "%d message(s) behind the detach message ran on another thread than the one that was pool thread 0", tail_wrong_thread);
	if (NULL != tpt_get_current())
		sc_log("note: tpt_get_current() still names a pool thread after the thread left the pool");	/* judged through its consequences below */
	/* now an outside thread again; thread 0 is stopped */
	do_sends(1, NULL);
	sc_wait_quiescent();
	check_sends(v);
}

void *
c05_detach_sender(void *arg) {
	int rc, i;
	(void)arg;
	for (i = 0; i < 50; i ++) {	/* until the attaching thread has marked thread 0 as started */
		rc = tpt_msg_send(tp_thread_get(tpc_tp, 0), NULL, 0, attach_probe_cb, NULL);
		if (0 == rc) {
			int k;
			sc_gate_wait(&probe_started, "probe_started");	/* thread 0 has read the probe alone and is inside its callback */
			rc = tpt_msg_send(tp_thread_get(tpc_tp, 0), NULL, 0, attach_detach_cb, NULL);
			attach_detach_rc = rc;	/* judged after the thread has left the loop */
			for (k = 0; k < 2; k ++) {
				if (0 == tpt_msg_send(tp_thread_get(tpc_tp, 0), NULL, 0, attach_tail_cb, NULL)) tail_sent_ok ++;
			}
			attach_gate = 1;
			return (NULL);
		}
		sc_yield("wait-for-attach");
	}
	sc_fail("harness", "thread 0 never became sendable");
	return (NULL);
}

static void
backlog_scenario(int idx) {
	const mvar_t *v = &variants[idx];
	int k, rc, n = 0;
	tpt_p t0;

	cur = v;
	for (k = 0; k < MAXS; k ++) { s_rc[k] = -12345; s_begin[k] = s_ret[k] = -1; s_tid[k] = -1; s_realdst[k] = -1; }
	tpc_up(v->W, 0);
	t0 = tp_thread_get(tpc_tp, 0);
	gate1 = gate2 = 0;
	rc = tpt_msg_send(t0, NULL, 0, gate_cb, NULL);
	if (0 != rc) sc_fail("harness", "gate send rc=%d", rc);
	sc_wait_quiescent();			/* thread 0 is parked inside the gate callback */
	rc = tpt_msg_send(t0, NULL, 0, bl_seed_cb, NULL);
	if (0 != rc) sc_fail("harness", "seed send rc=%d", rc);
	for (k = 0; k < v->nsends; k ++) {	/* first half of the external sender's messages: same batch as the seed */
		if (1 == v->sends[k].sender && n < 2) { do_one(k, NULL); n ++; }
	}
	gate1 = 1;
	sc_wait_quiescent();			/* thread 0 read the batch and is parked inside the seed callback */
	n = 0;
	for (k = 0; k < v->nsends; k ++) {	/* the rest: newer messages, still in the pipe */
		if (1 == v->sends[k].sender && ++ n > 2) do_one(k, NULL);
	}
	gate2 = 1;
	sc_wait_quiescent();
	check_sends(v);
}

static void
msg_scenario(int idx) {
	const mvar_t *v = &variants[idx];
	int k, i, rc, used[32];
	pthread_t pa, pb;
	int have_a = 0, have_b = 0;

	cur = v;
	for (k = 0; k < MAXS; k ++) { s_rc[k] = -12345; s_begin[k] = s_ret[k] = -1; s_tid[k] = -1; s_realdst[k] = -1; }
	tpc_up(v->W, (v->notrun == 0 && 1 == v->notrun_mode));
	if (v->notrun >= 0 && 2 == v->notrun_mode) {
		rc = tpt_msg_send(tp_thread_get(tpc_tp, (size_t)v->notrun), NULL, 0, detach_cb, NULL);
		sc_wait_quiescent();
		setup_send_verdict(rc, detach_cb_runs, "detach message to a running worker");
	}
	memset(used, 0, sizeof(used));
	for (k = 0; k < v->nsends; k ++)
		used[v->sends[k].sender] = 1;
	/* start all senders; they run concurrently with each other and with the workers */
	for (i = 10; i < 10 + v->W; i ++) {
		if (!used[i])
			continue;
		rc = tpt_msg_send(tp_thread_get(tpc_tp, (size_t)(i - 10)), NULL, 0, worker_seed_cb, (void *)(intptr_t)i);
		if (0 != rc)
			sc_fail("harness", "seed send rc=%d", rc);
	}
	if (used[1]) { pthread_create(&pa, NULL, ext_sender, (void *)(intptr_t)1); have_a = 1; }
	if (used[2]) { pthread_create(&pb, NULL, ext_sender, (void *)(intptr_t)2); have_b = 1; }
	if (have_a) pthread_join(pa, NULL);
	if (have_b) pthread_join(pb, NULL);
	sc_wait_quiescent();
	check_sends(v);
}

static void
check_sends(const mvar_t *v) {
	int k, j, i, cnt, ev, sync;

	/* ---------------- oracle ---------------- */
	for (k = 0; k < v->nsends; k ++) {
		int dst = s_realdst[k];
		uint32_t fl = v->sends[k].flags;
		int dst_running = !(dst == v->notrun);
		int is_self = (v->sends[k].sender >= 10 && dst == v->sends[k].sender - 10);

		if (s_ret[k] < 0)
			sc_fail("send-never-returned", "send %d did not return", k);
		cnt = tpc_count(E_CB_BEGIN, -1, 100 + k);
		if (cnt != tpc_count(E_CB_END, -1, 100 + k))
			sc_fail("cb-unfinished", "callback of send %d began but did not end", k);
		if (0 != s_rc[k]) {
			if (0 != cnt)
				sc_fail("failed-send-ran-callback", "send %d returned %d but its callback ran %d time(s)", k, s_rc[k], cnt);
			continue;
		}
		if (1 != cnt) {
			sc_fail((0 == cnt) ? "message-lost" : "message-duplicated", "send %d returned 0 but its callback ran %d time(s)", k, cnt);
		}
		ev = tpc_first(E_CB_BEGIN, -1, 100 + k);
		if (tpc_ev[ev].tnum != dst)
			sc_fail("wrong-thread-arg", "callback of send %d got thread %d, destination was %d", k, tpc_ev[ev].tnum, dst);
		sync = (tpc_ev[ev].tid == s_tid[k] && ev > s_begin[k] && ev < s_ret[k]);
		if (sync) {
			int allowed = 0;
			if (0 != (fl & TP_MSG_F_SELF_DIRECT) && is_self) allowed = 1;
			if (0 != (fl & TP_MSG_F_FORCE) && !dst_running) allowed = 1;
			if (0 != (fl & TP_MSG_F_FAIL_DIRECT) && v->faults) allowed = 1;
			if (!allowed)
				sc_fail("unexpected-direct-call", "send %d (flags %#x) ran its callback synchronously in the caller without a direct-call condition", k, fl);
		} else {
			/* asynchronous: must be on the destination's own OS thread; for the virtual thread on one worker */
			if (!dst_running)
				sc_fail("delivered-to-stopped-thread", "send %d was delivered asynchronously to thread %d which is not running", k, dst);
			if (dst == v->W) {
				int ok = 0;
				for (i = 0; i < v->W; i ++) {
					if (tpc_tid_of[i] == tpc_ev[ev].tid && i != v->notrun) ok = 1;
				}
				if (!ok)
					sc_fail("pvt-wrong-os-thread", "virtual-thread message %d ran on scheduler thread T%d which is not a pool worker", k, tpc_ev[ev].tid);
			} else {
				if (tpc_ev[ev].tid != tpc_tid_of[dst])
					sc_fail("wrong-os-thread", "send %d to pool thread %d ran on scheduler thread T%d (its loop is T%d)", k, dst, tpc_ev[ev].tid, tpc_tid_of[dst]);
				if (tpc_ev[ev].b != dst)
					sc_fail("wrong-current", "tpt_get_current() says %ld in the callback of send %d to thread %d", tpc_ev[ev].b, k, dst);
			}
			/* order: every earlier asynchronous message of the same sender to the same real thread ran before */
			if (dst != v->W) {
				for (j = 0; j < k; j ++) {
					int evj;
					if (v->sends[j].sender != v->sends[k].sender || s_realdst[j] != dst || 0 != s_rc[j])
						continue;
					evj = tpc_first(E_CB_BEGIN, -1, 100 + j);
					if (evj < 0)
						continue;
					if (tpc_ev[evj].tid == s_tid[j] && evj > s_begin[j] && evj < s_ret[j])
						continue; /* that one was a direct call */
					if (evj > ev)
						sc_fail("order-violated", "sender %d: message %d to thread %d ran before earlier message %d", v->sends[k].sender, k, dst, j);
				}
			}
		}
	}
	/* nothing fabricated */
	for (i = 0; i < tpc_nev; i ++) {
		if (E_CB_BEGIN == tpc_ev[i].type && (tpc_ev[i].a < 100 || tpc_ev[i].a >= 100 + v->nsends))
			sc_fail("fabricated-callback", "a callback ran with an argument (%ld) nobody sent", tpc_ev[i].a);
	}
	/* teardown is C11's subject: the execution ends here (the child process exits) */
}

int
main(int argc, char **argv) {
	return (sc_main(argc, argv));
}


/* ---- a really full queue (the pipes hold one page = 128 packets): a pool thread floods its own queue from a
 * callback.  The kernel, not an injected errno, says when the queue is full; a send that then waits instead of
 * failing can never be served (the only reader is the sender). ---- */
#define FLOOD_N 140
static int fq_rc[FLOOD_N], fq_runs[FLOOD_N], fq_direct[FLOOD_N], fq_order[FLOOD_N], fq_nrun, fq_in_flood;
static uint32_t fq_flags;
static void
fq_item_cb(tpt_p tpt, void *udata) {
	int k = (int)(intptr_t)udata;
	(void)tpt;
	fq_runs[k] ++;
	if (fq_in_flood) fq_direct[k] ++;
	if (fq_nrun < FLOOD_N) fq_order[fq_nrun ++] = k;
}
static void
fq_flood_cb(tpt_p tpt, void *udata) {
	int k;
	(void)udata;
	fq_in_flood = 1;
	for (k = 0; k < FLOOD_N; k ++)
		fq_rc[k] = tpt_msg_send(tpt, tpt, fq_flags, fq_item_cb, (void *)(intptr_t)k);
	fq_in_flood = 0;
}
static void
fullq_scenario(int idx) {
	const mvar_t *v = &variants[idx];
	int k, rc, last = -1, accepted = 0;

	cur = v;
	fq_flags = v->sends[0].flags;
	sc_small_pipes = 1;
	tpc_up(v->W, 0);
	rc = tpt_msg_send(tp_thread_get(tpc_tp, 0), NULL, 0, fq_flood_cb, NULL);
	if (0 != rc) sc_fail("harness", "flood seed send rc=%d", rc);
	sc_wait_quiescent();
	for (k = 0; k < FLOOD_N; k ++) {
		if (0 == fq_rc[k]) {	/* success: exactly one run; synchronously in the sender only under a direct-call option */
			accepted ++;
			if (0 == fq_runs[k]) sc_fail("message-lost", "self-send #%d into a filling queue reported success, never ran", k);
			if (fq_runs[k] > 1) sc_fail("message-duplicated", "self-send #%d ran %d times", k, fq_runs[k]);
			if (fq_direct[k] && 0 == (fq_flags & (TP_MSG_F_SELF_DIRECT | TP_MSG_F_FAIL_DIRECT)))
				sc_fail("unexpected-direct-call", "self-send #%d (flags %#x) ran inside the sender without a direct-call option", k, fq_flags);
		} else if (0 != fq_runs[k])
			sc_fail("failed-send-ran-callback", "self-send #%d returned %d but its callback ran %d time(s)", k, fq_rc[k], fq_runs[k]);
	}
	for (k = 0; k < fq_nrun; k ++) {	/* queued messages of one sender to one thread run in send order */
		if (fq_direct[fq_order[k]]) continue;
		if (fq_order[k] < last) sc_fail("order-violated", "self-send #%d ran after #%d", fq_order[k], last);
		last = fq_order[k];
	}
	if (accepted < 100 || accepted >= FLOOD_N)
		sc_log("note: %d of %d self-sends were accepted", accepted, FLOOD_N);
	sc_log("fullq: accepted=%d ran=%d", accepted, fq_nrun);
}

/* ---- messages accepted while the destination is busy, then the pool is shut down, then the destination gets back to
 * its queue: they were accepted by a running thread before the shutdown and stand in front of the shutdown message ---- */
static int ls_runs[4], ls_order[8], ls_n;
static void
ls_item_cb(tpt_p tpt, void *udata) {
	int k = (int)(intptr_t)udata;
	(void)tpt;
	ls_runs[k] ++;
	if (ls_n < 8) ls_order[ls_n ++] = k;
}
static void
latesend_scenario(int idx) {
	const mvar_t *v = &variants[idx];
	int k, rc, lrc[3];
	tpt_p dst;

	cur = v;
	tpc_up(v->W, 0);
	dst = tp_thread_get(tpc_tp, (size_t)(v->W - 1));
	gate1 = 0;
	rc = tpt_msg_send(dst, NULL, 0, gate_cb, NULL);
	if (0 != rc) sc_fail("harness", "gate send rc=%d", rc);
	sc_wait_quiescent();			/* the destination is parked inside the gate callback */
	for (k = 0; k < 3; k ++)
		lrc[k] = tpt_msg_send(dst, NULL, 0, ls_item_cb, (void *)(intptr_t)k);
	tp_shutdown(tpc_tp);			/* queues the shutdown message behind them */
	gate1 = 1;
	sc_wait_quiescent();
	for (k = 0; k < 3; k ++) {
		if (0 == lrc[k] && 0 == ls_runs[k]) sc_fail("message-lost", "message #%d was accepted by a running thread before tp_shutdown(), never ran", k);
		if (0 == lrc[k] && ls_runs[k] > 1) sc_fail("message-duplicated", "message #%d ran %d times", k, ls_runs[k]);
		if (0 != lrc[k] && 0 != ls_runs[k]) sc_fail("failed-send-ran-callback", "message #%d: send returned %d, callback ran", k, lrc[k]);
	}
	for (k = 1; k < ls_n; k ++)
		if (ls_order[k] < ls_order[k - 1]) sc_fail("order-violated", "message #%d ran after #%d", ls_order[k], ls_order[k - 1]);
}


/* ---- messages sent to threads that were created a moment ago and have not run yet (state STARTING counts as
 * running: the sends are accepted), then tp_shutdown(): the threads start, find the messages in front of the
 * shutdown message and must run them ---- */
static void
earlysend_scenario(int idx) {
	const mvar_t *v = &variants[idx];
	int k, rc, lrc[3];
	tpt_p dst;

	cur = v;
	rc = tpc_create(v->W);
	if (0 != rc || NULL == tpc_tp) sc_fail("harness", "tp_create rc=%d", rc);
	rc = tp_threads_create(tpc_tp, 0);
	if (0 != rc) sc_fail("harness", "tp_threads_create rc=%d", rc);
	dst = tp_thread_get(tpc_tp, (size_t)(v->W - 1));
	for (k = 0; k < 3; k ++)
		lrc[k] = tpt_msg_send(dst, NULL, 0, ls_item_cb, (void *)(intptr_t)k);
	tp_shutdown(tpc_tp);
	sc_wait_quiescent();
	for (k = 0; k < 3; k ++) {
		if (0 == lrc[k] && 0 == ls_runs[k]) sc_fail("message-lost", "message #%d was accepted by a thread that had just been created, never ran", k);
		if (0 == lrc[k] && ls_runs[k] > 1) sc_fail("message-duplicated", "message #%d ran %d times", k, ls_runs[k]);
		if (0 != lrc[k] && 0 != ls_runs[k]) sc_fail("failed-send-ran-callback", "message #%d: send returned %d, callback ran", k, lrc[k]);
	}
	for (k = 1; k < ls_n; k ++)
		if (ls_order[k] < ls_order[k - 1]) sc_fail("order-violated", "message #%d ran after #%d", ls_order[k], ls_order[k - 1]);
}

/* ---- tp_thread_dettach() from outside returned, then sends to that thread: each is either refused and never runs, or
 * accepted and runs once - whatever the detached thread is doing at that moment ---- */
static void
detachsend_scenario(int idx) {
	const mvar_t *v = &variants[idx];
	int k, rc, lrc[3];
	tpt_p dst;

	cur = v;
	tpc_up(v->W, 0);
	dst = tp_thread_get(tpc_tp, (size_t)(v->W - 1));
	rc = tp_thread_dettach(dst);
	if (0 != rc) sc_fail("harness", "tp_thread_dettach rc=%d", rc);
	for (k = 0; k < 3; k ++)
		lrc[k] = tpt_msg_send(dst, NULL, 0, ls_item_cb, (void *)(intptr_t)k);
	sc_wait_quiescent();
	for (k = 0; k < 3; k ++) {
		if (0 == lrc[k] && 0 == ls_runs[k]) sc_fail("message-lost", "message #%d sent after tp_thread_dettach() returned was accepted, never ran", k);
		if (0 == lrc[k] && ls_runs[k] > 1) sc_fail("message-duplicated", "message #%d ran %d times", k, ls_runs[k]);
		if (0 != lrc[k] && 0 != ls_runs[k]) sc_fail("failed-send-ran-callback", "message #%d: send returned %d, callback ran", k, lrc[k]);
	}
	for (k = 1; k < ls_n; k ++)
		if (ls_order[k] < ls_order[k - 1]) sc_fail("order-violated", "message #%d ran after #%d", ls_order[k], ls_order[k - 1]);
}

/* ---- sends to a thread that has left its loop and sits in its stop hook: they are either refused and never run, or
 * (FORCE / FAIL_DIRECT) run once in the caller ---- */
static volatile int stop_gate = 0, in_stop_hook = 0;
static int ss_target = -1;
static void
ss_stop_extra(tpt_p tpt) {
	if ((int)tpt_get_num(tpt) != ss_target) return;
	in_stop_hook = 1;
	sc_gate_wait(&stop_gate, "stop_gate");
}
static int ss_runs[3], ss_direct[3], ss_in_send = -1;
static void
ss_item_cb(tpt_p tpt, void *udata) {
	int k = (int)(intptr_t)udata;
	(void)tpt;
	ss_runs[k] ++;
	if (ss_in_send == k) ss_direct[k] ++;
}
static void
stopsend_scenario(int idx) {
	const mvar_t *v = &variants[idx];
	static const uint32_t fl[3] = { 0, TP_MSG_F_FORCE, TP_MSG_F_FAIL_DIRECT };
	int k, src[3];
	tpt_p dst;

	cur = v;
	ss_target = v->W - 1;
	tpc_stop_extra = ss_stop_extra;
	tpc_up(v->W, 0);
	dst = (1 == v->notrun_mode) ? tp_thread_get_pvt(tpc_tp) : tp_thread_get(tpc_tp, (size_t)ss_target);	/* mode 1: the pool's virtual thread - nobody
													 * serves it any more once the workers have left their loops */
	tp_shutdown(tpc_tp);
	sc_gate_wait(&in_stop_hook, "in_stop_hook");	/* the destination is out of its loop, inside its stop hook */
	for (k = 0; k < 3; k ++) {
		ss_in_send = k;
		src[k] = tpt_msg_send(dst, NULL, fl[k], ss_item_cb, (void *)(intptr_t)k);
		ss_in_send = -1;
	}
	stop_gate = 1;
	sc_wait_quiescent();
	for (k = 0; k < 3; k ++) {
		if (0 == src[k] && 0 == ss_runs[k]) sc_fail("message-lost", "send #%d (flags %#x) to %s reported success, never ran", k, fl[k], (1 == v->notrun_mode) ? "the virtual thread of a pool that was shut down (its workers are out of their loops)" : "a thread inside its stop hook");
		if (0 == src[k] && ss_runs[k] > 1) sc_fail("message-duplicated", "send #%d ran %d times", k, ss_runs[k]);
		if (0 != src[k] && 0 != ss_runs[k]) sc_fail("failed-send-ran-callback", "send #%d returned %d, callback ran %d time(s)", k, src[k], ss_runs[k]);
		if (ss_direct[k] && 0 == fl[k]) sc_fail("unexpected-direct-call", "send #%d without a direct-call option ran in the caller", k);
	}
}
