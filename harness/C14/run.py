import os, zlib
from vlib import core

# message lengths of the CRC family (must match crc_all() in c14_more.inc)
CRC_LENS = list(range(34)) + [62, 63, 64, 65, 66, 127, 128, 129]

def gen_zlib_table():
    """zlib.crc32 (IEEE, the polynomial behind crc32b) of the pattern-0 messages, #included by the harness."""
    path = os.path.join(core.build_dir('C14'), 'crc_zlib.h')
    vals = []
    for n in CRC_LENS:
        msg = bytes((0x9d * (i + 1) + 7 * n) & 0xff for i in range(n))
        vals.append(zlib.crc32(msg) & 0xffffffff)
    with open(path, 'w') as fh:
        fh.write('static const uint32_t C14_ZLIB[%d] = { %s };\n' % (len(vals), ', '.join('0x%08xu' % v for v in vals)))
    return os.path.dirname(path)

def run(tier):
    rep = core.Report('C14', tier, 'exploration',
        'integers: every value of the 8/16-bit types and the boundary set (0, +-1, 10^k, 10^k+-1, 16^k, limits) of the wider ones, '
        'decimal both ways and hexadecimal text -> integer; Base64: every byte string of length <=2 (thorough: <=3) and a structural '
        'alphabet to length 6; hex: every byte string of length 1..2 and a structural alphabet to length 5 (6); XML entities: all '
        'strings over {& < > \' " a} to length 6 (7) and over {& < > \' " a ; l t} to length 5 (6); URL: every byte string of length '
        '1..2 and a 16-symbol alphabet to length 3 (4) under five percent-encoders; CRC-32: every table entry, 8 variants x lengths '
        '0..33,62..66,127..129 x alignments 0..7 x 3 contents, all 1- and 2-byte messages.  A case is non-trivial when the library '
        'call succeeded and the whole oracle chain (text == reference, inverse == input, reported length == bytes written) was evaluated')
    rep.assumptions = ['references written in the harness: snprintf for decimal/hex text, a bit-accumulator Base64, a one-pass '
                       'XML 1.0 entity encoder, an RFC 3986 percent-encoder, a bit-at-a-time CRC (validated at start against the '
                       'catalogue check values quoted in crc32.h) plus zlib.crc32 for the IEEE polynomial']
    inc = gen_zlib_table()
    b = core.compile_c('C14', 'h_c14', ['harness/C14/h_c14.c', core.repo_src('utils', 'buf_str.c'), core.repo_src('utils', 'xml.c'),
                                        core.repo_src('proto', 'http.c')],
                       flags=['-DC14_HAVE_ZLIB_TABLE', '-I' + inc, '-I' + os.path.join(core.VERIF, 'harness', 'C14')])
    core.run_sharded(rep, b, tier)
    rep.finish(core.make_replayer(lambda cfg: b, tier))
