from vlib import core

def run(tier):
    rep = core.Report('C14', tier, 'exploration',
        'every value of 8/16-bit integer types and the boundary set of wider ones; every byte string of length <=2 '
        '(thorough: <=3) and a structural alphabet to length 6 through Base64; a case is non-trivial when the '
        'library call succeeded and the full oracle chain (format==canonical, parse-back==value, decode(encode)==x) was evaluated')
    rep.assumptions = ['references: snprintf for decimal text, a bit-accumulator Base64 written in the harness']
    b = core.compile_c('C14', 'h_c14', ['harness/C14/h_c14.c'])
    core.run_sharded(rep, b, tier)
    rep.finish(core.make_replayer(lambda cfg: b, tier))
