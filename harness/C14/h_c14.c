/* C14 - encoders/decoders are mutual inverses and agree with their standards.
 * Small-scope exhaustive enumeration; oracles are boring references written here
 * (snprintf, a bit-accumulator Base64, bitwise CRC) that share no code with liblcb. */
#include <errno.h>
#include <inttypes.h>
#include <limits.h>
#include "vh.h"
#include "utils/num2str.h"
#include "utils/str2num.h"
#include "utils/base64.h"
#include "utils/strh2num.h"
#include "utils/buf_str.h"
#include "utils/xml.h"
#include "math/crc32.h"
#include "proto/http.h"

/* ---------------------------------------------------------------- integer <-> text */
static int64_t cur_sv; static uint64_t cur_uv; static const char *cur_fn;
static void desc_num(char *b, size_t n) { snprintf(b, n, "%s v=%" PRId64 " u=%" PRIu64, cur_fn, cur_sv, cur_uv); }

#define CHK_U(fn, parse, type, v) do {						\
	type _v = (type)(v); char ref[32], *out; size_t ret = 999, rl;		\
	if (!vh_begin(#fn)) break;						\
	cur_fn = #fn; cur_uv = (uint64_t)_v; cur_sv = 0;			\
	rl = (size_t)snprintf(ref, sizeof(ref), "%" PRIu64, (uint64_t)_v);	\
	out = (char *)malloc(rl + 1); /* exactly text + NUL */		\
	memset(out, 0x7e, rl + 1);						\
	int rc = fn(_v, out, rl + 1, &ret);					\
	if (rc != 0) vh_fail("format-rc", "rc=%d with exact capacity %zu", rc, rl + 1); \
	else {									\
		if (ret != rl) vh_fail("format-len", "reported %zu, canonical text has %zu", ret, rl); \
		if (memcmp(out, ref, rl + 1) != 0) vh_fail("format-text", "got '%.*s' want '%s'", (int)rl, out, ref); \
		else if ((type)parse(ref, rl) != _v) vh_fail("parse-back", "parse('%s') = %" PRIu64, ref, (uint64_t)parse(ref, rl)); \
		else vh_nontrivial();						\
	}									\
	free(out);								\
} while (0)

#define CHK_S(fn, parse, type, v) do {						\
	type _v = (type)(v); char ref[32], *out; size_t ret = 999, rl;		\
	if (!vh_begin(#fn)) break;						\
	cur_fn = #fn; cur_sv = (int64_t)_v; cur_uv = 0;				\
	rl = (size_t)snprintf(ref, sizeof(ref), "%" PRId64, (int64_t)_v);	\
	out = (char *)malloc(rl + 1);						\
	memset(out, 0x7e, rl + 1);						\
	int rc = fn(_v, out, rl + 1, &ret);					\
	if (rc != 0) vh_fail("format-rc", "rc=%d with exact capacity %zu", rc, rl + 1); \
	else {									\
		if (ret != rl) vh_fail("format-len", "reported %zu, canonical text has %zu", ret, rl); \
		if (memcmp(out, ref, rl + 1) != 0) vh_fail("format-text", "got '%.*s' want '%s'", (int)rl, out, ref); \
		else if ((type)parse(ref, rl) != _v) vh_fail("parse-back", "parse('%s') = %" PRId64, ref, (int64_t)parse(ref, rl)); \
		else vh_nontrivial();						\
	}									\
	free(out);								\
} while (0)

static void
num_all(void) {
	int64_t i; int k, d;
	uint64_t p;
	vh_set_describer(desc_num);
	for (i = 0; i <= 0xff; i ++) { CHK_U(u82str, str2u8, uint8_t, i); CHK_S(s82str, str2s8, int8_t, (int8_t)i); }
	for (i = 0; i <= 0xffff; i ++) { CHK_U(u162str, str2u16, uint16_t, i); CHK_S(s162str, str2s16, int16_t, (int16_t)i); }
	/* wider types: 0, +-1, every 10^k, 10^k +- 1, min, min+1, max-1, max (and negatives) */
	for (k = 0, p = 1; k < 20; k ++, p *= 10) {
		for (d = -1; d <= 1; d ++) {
			uint64_t u = p + (uint64_t)d;
			if (u <= UINT32_MAX) { CHK_U(u322str, str2u32, uint32_t, u); }
			CHK_U(u642str, str2u64, uint64_t, u);
			CHK_U(usize2str, str2usize, size_t, u);
			if (u <= (uint64_t)INT32_MAX) { CHK_S(s322str, str2s32, int32_t, (int64_t)u); CHK_S(s322str, str2s32, int32_t, -(int64_t)u); }
			if (u <= (uint64_t)INT64_MAX) { CHK_S(s642str, str2s64, int64_t, (int64_t)u); CHK_S(s642str, str2s64, int64_t, -(int64_t)u);
				CHK_S(ssize2str, str2ssize, ssize_t, (int64_t)u); CHK_S(ssize2str, str2ssize, ssize_t, -(int64_t)u); }
		}
	}
	{ uint64_t ub[] = { UINT32_MAX, UINT32_MAX - 1, (uint64_t)UINT32_MAX + 1, UINT64_MAX, UINT64_MAX - 1 };
	  for (k = 0; k < 5; k ++) { if (ub[k] <= UINT32_MAX) CHK_U(u322str, str2u32, uint32_t, ub[k]); CHK_U(u642str, str2u64, uint64_t, ub[k]); CHK_U(usize2str, str2usize, size_t, ub[k]); } }
	{ int64_t sb[] = { INT32_MAX, INT32_MAX - 1, INT32_MIN, INT32_MIN + 1, INT64_MAX, INT64_MAX - 1, INT64_MIN, INT64_MIN + 1 };
	  for (k = 0; k < 8; k ++) { if (sb[k] <= INT32_MAX && sb[k] >= INT32_MIN) CHK_S(s322str, str2s32, int32_t, sb[k]); CHK_S(s642str, str2s64, int64_t, sb[k]); CHK_S(ssize2str, str2ssize, ssize_t, sb[k]); } }
	vh_set_describer(NULL);
}

/* ---------------------------------------------------------------- Base64 (RFC 4648) */
static size_t
ref_b64(const uint8_t *s, size_t n, char *o) { /* bit accumulator, independent structure */
	static const char A[] = "ABCDEFGHIJKLMNOPQRSTUVWXYZabcdefghijklmnopqrstuvwxyz0123456789+/";
	uint32_t acc = 0; int bits = 0; size_t i, k = 0;
	for (i = 0; i < n; i ++) {
		acc = (acc << 8) | s[i]; bits += 8;
		while (bits >= 6) { o[k ++] = A[(acc >> (bits - 6)) & 63]; bits -= 6; }
	}
	if (bits > 0) o[k ++] = A[(acc << (6 - bits)) & 63];
	while (k % 4) o[k ++] = '=';
	return (k);
}

static void
b64_one(const uint8_t *msg, size_t n) {
	char ref[64], hx[64]; size_t rl, el = 777, dl = 777, i, pos;
	uint8_t *src, *enc, *dec, *fmt_in, *fmt_out;
	static const uint8_t junk[] = { '\r', '\n', ' ', '@', 0x00, 0xff };

	if (!vh_begin("base64_roundtrip")) return;
	vh_hex(hx, sizeof(hx), msg, n); vh_desc("msg=%s", hx);
	rl = ref_b64(msg, n, ref);
	src = (uint8_t *)vh_dup(msg, n);
	enc = (uint8_t *)malloc(rl + 1); /* room for the NUL the function appends */
	int rc = base64_encode(src, n, enc, rl + 1, &el);
	if (rc != 0) { vh_fail("encode-rc", "rc=%d", rc); goto out; }
	if (el != rl) vh_fail("encode-len", "reported %zu want %zu", el, rl);
	if (n && memcmp(enc, ref, rl) != 0) vh_fail("encode-text", "got '%.*s' want '%.*s'", (int)rl, enc, (int)rl, ref);
	dec = (uint8_t *)malloc(n + 4);
	rc = base64_decode((const uint8_t *)ref, rl, dec, n + 4, &dl);
	if (rc != 0) vh_fail("decode-rc", "rc=%d", rc);
	else if (dl != n) vh_fail("decode-len", "reported %zu want %zu", dl, n);
	else if (n && memcmp(dec, msg, n) != 0) vh_fail("decode-bytes", "decode(encode(x)) != x");
	else vh_nontrivial();
	free(dec);
	/* tolerant decoder: one junk byte inserted at every position */
	for (i = 0; i < sizeof(junk) && rl > 0; i ++) {
		for (pos = 0; pos <= rl; pos ++) {
			fmt_in = (uint8_t *)malloc(rl + 1);
			memcpy(fmt_in, ref, pos); fmt_in[pos] = junk[i]; memcpy(fmt_in + pos + 1, ref + pos, rl - pos);
			fmt_out = (uint8_t *)malloc(rl + 2);
			dl = 777;
			rc = base64_decode_fmt(fmt_in, rl + 1, fmt_out, rl + 2, &dl);
			if (rc != 0) vh_fail("decode_fmt-rc", "rc=%d junk=%02x pos=%zu", rc, junk[i], pos);
			else if (dl != n || memcmp(fmt_out, msg, n) != 0) vh_fail("decode_fmt-bytes", "junk=%02x pos=%zu len=%zu", junk[i], pos, dl);
			free(fmt_in); free(fmt_out);
		}
	}
out:
	free(src); free(enc);
}

static void
b64_all(void) {
	uint8_t m[8]; uint32_t v; size_t n;
	static const uint8_t S[] = { 0x00, 0x01, 0x3f, 0x40, 0x7f, 0x80, 0xfb, 0xff };
	b64_one(m, 0);
	for (v = 0; v < 256; v ++) { m[0] = (uint8_t)v; b64_one(m, 1); }
	for (v = 0; v < 65536; v ++) { m[0] = (uint8_t)(v >> 8); m[1] = (uint8_t)v; b64_one(m, 2); }
	if (vh_thorough) {
		for (v = 0; v < (1u << 24); v ++) { m[0] = (uint8_t)(v >> 16); m[1] = (uint8_t)(v >> 8); m[2] = (uint8_t)v; b64_one(m, 3); }
	} else { /* every value of each byte with the two others over the structural alphabet */
		for (v = 0; v < 256; v ++) for (int a = 0; a < 8; a ++) for (int b = 0; b < 8; b ++) {
			m[0] = (uint8_t)v; m[1] = S[a]; m[2] = S[b]; b64_one(m, 3);
			m[0] = S[a]; m[1] = (uint8_t)v; m[2] = S[b]; b64_one(m, 3);
			m[0] = S[a]; m[1] = S[b]; m[2] = (uint8_t)v; b64_one(m, 3);
		}
	}
	for (n = 4; n <= 6; n ++) { /* structural alphabet to length 6 (8^6 = 262144) */
		uint64_t tot = 1, c; size_t i;
		for (i = 0; i < n; i ++) tot *= 8;
		for (c = 0; c < tot; c ++) { uint64_t t = c; for (i = 0; i < n; i ++) { m[i] = S[t & 7]; t >>= 3; } b64_one(m, n); }
	}
}


/* tolerant decoder: EVERY byte value outside the RFC 4648 alphabet (and other than '=') is junk and
 * must be skipped wherever it stands, alone or in runs, also between the padding characters */
static void
b64_junk_all(void) {
	static const char A[] = "ABCDEFGHIJKLMNOPQRSTUVWXYZabcdefghijklmnopqrstuvwxyz0123456789+/";
	uint8_t msg[9], in[64], out[64]; char ref[32];
	size_t n, rl, pos, dl, k; int j, rc, run;
	for (n = 1; n <= 7; n ++) {
		for (k = 0; k < n; k ++) msg[k] = (uint8_t)(0xfb - 37 * k - n);	/* includes bytes that encode to '+' and '/' */
		if (3 == n) { msg[0] = 0xfb; msg[1] = 0xef; msg[2] = 0xbe; }	/* "++++" */
		if (6 == n) { msg[0] = 0xff; msg[1] = 0xff; msg[2] = 0xff; msg[3] = 0xfb; msg[4] = 0xef; msg[5] = 0xbe; } /* "////++++" */
		rl = ref_b64(msg, n, ref);
		for (j = 0; j < 256; j ++) {
			if ('=' == j || (0 != j && NULL != strchr(A, j))) continue;
			for (run = 1; run <= 2; run ++) for (pos = 0; pos <= rl; pos ++) {
				if (!vh_begin("base64_decode_fmt_junk")) continue;
				vh_desc("n=%zu junk=%02x run=%d pos=%zu", n, j, run, pos);
				memcpy(in, ref, pos); memset(in + pos, j, (size_t)run); memcpy(in + pos + run, ref + pos, rl - pos);
				dl = 777;
				rc = base64_decode_fmt(in, rl + (size_t)run, out, sizeof(out), &dl);
				if (rc != 0) vh_fail("decode_fmt-rc", "rc=%d", rc);
				else if (dl != n || memcmp(out, msg, n) != 0) vh_fail("decode_fmt-bytes", "len=%zu want %zu", dl, n);
				else vh_nontrivial();
			}
			/* the junk byte between all characters at once */
			if (!vh_begin("base64_decode_fmt_junk")) continue;
			vh_desc("n=%zu junk=%02x interleaved", n, j);
			for (k = 0; k < rl; k ++) { in[2 * k] = (uint8_t)ref[k]; in[2 * k + 1] = (uint8_t)j; }
			dl = 777;
			rc = base64_decode_fmt(in, 2 * rl, out, sizeof(out), &dl);
			if (rc != 0) vh_fail("decode_fmt-rc", "rc=%d", rc);
			else if (dl != n || memcmp(out, msg, n) != 0) vh_fail("decode_fmt-bytes", "len=%zu want %zu", dl, n);
			else vh_nontrivial();
		}
	}
}

#include "c14_more.inc"

int
main(int argc, char **argv) {
	vh_init(argc, argv);
	crc_ref_selfcheck();
	num_all();
	b64_all();
	b64_junk_all();
	hex_all();
	strh_all();
	xmlent_all();
	url_all();
	crc_all();
	return (vh_finish());
}
