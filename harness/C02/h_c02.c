/* C02 - elliptic-curve group law and scalar multiplication are correct in every build.
 *
 * One source, compiled once per configuration of <math/elliptic_curve.h> (coordinates, mixed
 * addition, repeated doubling, the three dispatch macros, window bits, bignum digit width).
 *
 * (a) synthetic curves (tiny_curves.h): the whole group is enumerated with native integers and
 *     the textbook affine law; every library result is compared with it.
 * (b) the built-in curves: the cases and the expected points come from a text file that
 *     gen_real_expected.py wrote at check time (textbook affine law over Python integers on the
 *     curve parameters parsed from the header as data).
 *
 * Compile-time knobs (set by run.py):
 *   C02_TARGETS     bit mask: 1 add/sub/double, 2 ec_point_unknown_pt_mult, 4 ec_point_mult_bp,
 *                   8 ec_point_twin_mult_bp / ec_point_twin_mult
 *   C02_TINY_MASK   bit i set: run synthetic curve i      C02_REAL_MASK  same for built-in curve i
 *   C02_REAL_TABLE  path of the expected-points file
 *   C02_TWIN_FULL   0: twin multiplication over the alphabets only (the FXP_UNKPT cross builds)
 *   C02_PROBE       unknown-point multiplication: four cases per curve only (used for the build in which
 *                   every call overruns its on-stack table, see NOTES.md F4)
 *
 * Determinism: liblcb leaves bn_t digits above `digits` uninitialised by design and (defects found
 * by this check) sometimes reads uninitialised stack memory.  So that a case behaves the same in the
 * sharded run and in the one-case replay, every operand is filled with C02_FILL before it is initialised
 * and the stack below the call is filled with C02_FILL before every library call (paint_*()); the call
 * itself sits in a noinline wrapper so that the callee frames start inside the painted area.
 */
#include <sys/param.h>
#include <sys/types.h>
#include <inttypes.h>
#include <errno.h>
#include "vh.h"
#include "crypto/dsa/ecdsa.h"
#include "tiny_curves.h"

#ifndef C02_TARGETS
#define C02_TARGETS 0xF
#endif
#ifndef C02_TINY_MASK
#define C02_TINY_MASK 0xFFFu
#endif
#ifndef C02_REAL_MASK
#define C02_REAL_MASK 0xFFFFFFFFu
#endif
#ifndef C02_TWIN_FULL
#define C02_TWIN_FULL 1	/* every (k1,k2,Q) on the two smallest groups */
#endif
/* The fill byte: non-zero, odd, high bit set (so garbage looks like a big odd number / a huge
 * capacity).  0xF1 rather than e.g. 0xA5 for a practical reason: with garbage = 5 (mod 8) the
 * uninitialised read in bn_calc_jsf() (zero scalar) never terminates and writes through the stack,
 * the process dies and the driver would have to resume thousands of times; with 1 (mod 8) the same
 * defect shows as a wrong point and the exploration goes on.  repro/jsf_zero_scalar.c shows both. */
#ifndef C02_FILL
#define C02_FILL	0xF1
#endif
#define T_ADD	1
#define T_UNK	2
#define T_BP	4
#define T_TWIN	8

/* ------------------------------------------------------------------ names of what this build tests */
#ifndef EC_USE_PROJECTIVE
#define CFG_COORDS "affine"
#elif defined(EC_PROJ_ADD_MIX) && defined(EC_PROJ_REPEAT_DOUBLE)
#define CFG_COORDS "jacobian+mix+rd"
#elif defined(EC_PROJ_ADD_MIX)
#define CFG_COORDS "jacobian+mix"
#elif defined(EC_PROJ_REPEAT_DOUBLE)
#define CFG_COORDS "jacobian+rd"
#else
#define CFG_COORDS "jacobian"
#endif
#define ALG_NAME(a) ((a) == 0 ? "bin" : (a) == 1 ? "pre_dbl" : (a) == 2 ? "sl_win" : (a) == 3 ? "comb1t" : "comb2t")
#define TWIN_NAME(a) ((a) == 0 ? "bin" : (a) == 1 ? "fxp_unkpt" : (a) == 2 ? "joint" : "inter")
/* Targets are the dispatcher plus the implementation the macros resolve to, so that a finding in one
 * algorithm is not keyed like a finding in another one.  Window bits / digit width go to the case text. */
static char TGT_SETUP[96], TGT_ADD[96], TGT_SUB[96], TGT_DBL[96], TGT_UNK[96], TGT_BP[96], TGT_TWINBP[128], TGT_TWIN[96], TGT_VALIDATE[96];
static char CFG_TEXT[160];
/* The table types of the unknown-point algorithms are dimensioned with EC_PF_FXP_MULT_WIN_BITS; a build
 * whose unknown-point window is wider is a different situation (NOTES.md F4) and gets its own target. */
#if (EC_PF_UNKPT_MULT_ALGO >= EC_PF_UNKPT_MULT_ALGO_SLIDING_WIN) && (EC_PF_UNKPT_MULT_WIN_BITS > EC_PF_FXP_MULT_WIN_BITS)
#define UNK_WIDER "[unk_w>fxp_w]"
#else
#define UNK_WIDER ""
#endif
static void
names_init(void) {
	snprintf(TGT_SETUP, sizeof(TGT_SETUP), "ecdsa_curve_from_str/%s:%s", CFG_COORDS, ALG_NAME(EC_PF_FXP_MULT_ALGO));
	snprintf(TGT_VALIDATE, sizeof(TGT_VALIDATE), "ec_curve_validate/%s:%s", CFG_COORDS, ALG_NAME(EC_PF_UNKPT_MULT_ALGO));
	snprintf(TGT_ADD, sizeof(TGT_ADD), "ec_point_add/%s", CFG_COORDS);
	snprintf(TGT_SUB, sizeof(TGT_SUB), "ec_point_sub/%s", CFG_COORDS);
	snprintf(TGT_DBL, sizeof(TGT_DBL), "ec_point_add(P,P)/%s", CFG_COORDS);
	snprintf(TGT_UNK, sizeof(TGT_UNK), "ec_point_unknown_pt_mult/%s:%s%s", CFG_COORDS, ALG_NAME(EC_PF_UNKPT_MULT_ALGO), UNK_WIDER);
	snprintf(TGT_BP, sizeof(TGT_BP), "ec_point_mult_bp/%s:%s", CFG_COORDS, ALG_NAME(EC_PF_FXP_MULT_ALGO));
#if EC_PF_TWIN_MULT_ALGO == EC_PF_TWIN_MULT_ALGO_FXP_UNKPT
	snprintf(TGT_TWINBP, sizeof(TGT_TWINBP), "ec_point_twin_mult_bp/%s:fxp_unkpt(%s,%s)%s", CFG_COORDS,
	    ALG_NAME(EC_PF_FXP_MULT_ALGO), ALG_NAME(EC_PF_UNKPT_MULT_ALGO), UNK_WIDER);
	snprintf(TGT_TWIN, sizeof(TGT_TWIN), "ec_point_twin_mult/%s:bin", CFG_COORDS);
#else
	snprintf(TGT_TWINBP, sizeof(TGT_TWINBP), "ec_point_twin_mult_bp/%s:%s", CFG_COORDS, TWIN_NAME(EC_PF_TWIN_MULT_ALGO));
	snprintf(TGT_TWIN, sizeof(TGT_TWIN), "ec_point_twin_mult/%s:%s", CFG_COORDS, TWIN_NAME(EC_PF_TWIN_MULT_ALGO));
#endif
	snprintf(CFG_TEXT, sizeof(CFG_TEXT), "digit=%d fxp=%s/w%d unk=%s/w%d twin=%s", (int)BN_DIGIT_BIT_CNT,
	    ALG_NAME(EC_PF_FXP_MULT_ALGO), (int)EC_PF_FXP_MULT_WIN_BITS, ALG_NAME(EC_PF_UNKPT_MULT_ALGO),
	    (int)EC_PF_UNKPT_MULT_WIN_BITS, TWIN_NAME(EC_PF_TWIN_MULT_ALGO));
}

/* Input class of the running case, appended to the clause name so that findings with different
 * preconditions are keyed apart: a zero scalar, or a scalar longer than the curve size m (legal: the
 * order n of secp160k1/r1/r2 and secp224k1 has m+1 bits, so n-1 and n are such scalars). */
static const char *CASE_TAG = "";
static char CLAUSE_BUF[96];
static const char *
clause(const char *base) {
	if (0 == CASE_TAG[0])
		return (base);
	snprintf(CLAUSE_BUF, sizeof(CLAUSE_BUF), "%s%s", base, CASE_TAG);
	return (CLAUSE_BUF);
}
static void
case_tag_scalars(int zero, int wide) {
	CASE_TAG = zero ? (wide ? "[scalar=0,scalar>m bits]" : "[scalar=0]") : (wide ? "[scalar>m bits]" : "");
}

/* ------------------------------------------------------------------ native oracle (tiny curves) */
typedef struct { uint32_t x, y, inf; } np_t;
static const np_t NP_O = { 0, 0, 1 };

static const c02_tiny_curve_t *TC;
static uint64_t TP, TA, TB;		/* p, a, b */
static np_t *GRP;			/* all points, GRP[0] = O, then x ascending, y ascending */
static uint32_t GRP_N;			/* group order (with O) */
static uint32_t KMAX;			/* scalars 0 .. KMAX: max(n, 2^m - 1) */

static uint64_t
n_inv(uint64_t a) {			/* a^-1 mod p, a != 0 (mod p); extended Euclid */
	int64_t t = 0, nt = 1, r = (int64_t)TP, nr = (int64_t)(a % TP), q, tmp;
	while (0 != nr) {
		q = r / nr;
		tmp = t - q * nt; t = nt; nt = tmp;
		tmp = r - q * nr; r = nr; nr = tmp;
	}
	if (t < 0)
		t += (int64_t)TP;
	return ((uint64_t)t);
}
static int
n_on_curve(np_t P) {
	if (P.inf)
		return (1);
	if (P.x >= TP || P.y >= TP)
		return (0);
	return ((((uint64_t)P.y * P.y) % TP) ==
	    ((((((uint64_t)P.x * P.x) % TP) * P.x) % TP + (TA * P.x) % TP + TB) % TP));
}
static np_t
n_neg(np_t P) {
	if (!P.inf && 0 != P.y)
		P.y = (uint32_t)(TP - P.y);
	return (P);
}
static np_t
n_add(np_t P, np_t Q) {			/* textbook affine law */
	uint64_t l, x3, y3;
	np_t R;
	if (P.inf) return (Q);
	if (Q.inf) return (P);
	if (P.x == Q.x) {
		if (0 == ((uint64_t)P.y + Q.y) % TP)
			return (NP_O);	/* P + (-P), also 2P with y == 0 */
		l = ((3 * (((uint64_t)P.x * P.x) % TP) + TA) % TP) * n_inv((2 * (uint64_t)P.y) % TP) % TP;
	} else {
		l = (((uint64_t)Q.y + TP - P.y) % TP) * n_inv(((uint64_t)Q.x + TP - P.x) % TP) % TP;
	}
	x3 = ((l * l) % TP + 2 * TP - P.x - Q.x) % TP;
	y3 = ((l * (((uint64_t)P.x + TP - x3) % TP)) % TP + TP - P.y) % TP;
	R.x = (uint32_t)x3; R.y = (uint32_t)y3; R.inf = 0;
	return (R);
}
static int
n_eq(np_t P, np_t Q) {
	if (P.inf || Q.inf)
		return (P.inf && Q.inf);
	return (P.x == Q.x && P.y == Q.y);
}
/* k*P for k = 0..cnt-1 by repeated addition (brute force, no ladder). */
static np_t *
n_multiples(np_t P, uint32_t cnt) {
	np_t *t = (np_t *)malloc(sizeof(np_t) * (size_t)cnt);
	uint32_t k;
	t[0] = NP_O;
	for (k = 1; k < cnt; k ++)
		t[k] = n_add(t[k - 1], P);
	return (t);
}

static void
die(const char *what, const char *name) {
	fprintf(stderr, "C02 harness: table self-check failed for %s: %s\n", name, what);
	exit(3);
}

/* Enumerate the group, recount everything the table claims. */
static void
tiny_group_build(const c02_tiny_curve_t *t) {
	uint32_t x, y, *root, cnt = 1, y0 = 0, k, bits = 0;
	uint64_t rhs, v;
	np_t R, G;

	TC = t; TP = t->p; TA = t->a; TB = t->b;
	for (v = t->p; v; v >>= 1) bits ++;
	if (bits != t->m) die("m is not the bit length of p", t->name);
	for (v = 2; v * v <= TP; v ++) if (0 == TP % v) die("p is not prime", t->name);
	for (v = 2; v * v <= t->n; v ++) if (0 == t->n % v) die("n is not prime", t->name);
	if (t->a >= t->p || t->b >= t->p) die("a or b not reduced", t->name);
	if (0 == (4 * ((TA * TA % TP) * TA % TP) + 27 * (TB * TB % TP)) % TP) die("singular", t->name);
	if (t->am3 && t->a != t->p - 3) die("am3 row with a != p-3", t->name);
	/* smallest square root of every residue */
	root = (uint32_t *)malloc(sizeof(uint32_t) * t->p);
	memset(root, 0xff, sizeof(uint32_t) * t->p);
	for (y = 0; y < t->p; y ++) {
		v = ((uint64_t)y * y) % TP;
		if (0xffffffffu == root[v])
			root[v] = y;
	}
	free(GRP);
	GRP = (np_t *)malloc(sizeof(np_t) * (2 * (size_t)t->p + 2));
	GRP[0] = NP_O;
	for (x = 0; x < t->p; x ++) {
		rhs = ((((uint64_t)x * x) % TP) * x % TP + (TA * x) % TP + TB) % TP;
		if (0xffffffffu == root[rhs])
			continue;
		y = root[rhs];
		GRP[cnt].x = x; GRP[cnt].y = y; GRP[cnt].inf = 0; cnt ++;
		if (0 == y) { y0 ++; continue; }
		GRP[cnt].x = x; GRP[cnt].y = t->p - y; GRP[cnt].inf = 0;
		if (GRP[cnt].y < GRP[cnt - 1].y) { np_t s = GRP[cnt]; GRP[cnt] = GRP[cnt - 1]; GRP[cnt - 1] = s; }
		cnt ++;
	}
	free(root);
	GRP_N = cnt;
	if ((uint64_t)t->n * t->h != cnt) die("#E != n*h", t->name);
	if (y0 != t->y0) die("number of y=0 points", t->name);
	G.x = t->gx; G.y = t->gy; G.inf = 0;
	if (!n_on_curve(G)) die("G not on curve", t->name);
	for (k = 1, R = G; !R.inf; k ++) {	/* exact order of G by repeated addition */
		R = n_add(R, G);
		if (!n_on_curve(R)) die("oracle left the curve", t->name);
		if (k > cnt) die("G order runaway", t->name);
	}
	if (k != t->n) die("ord(G) != n", t->name);
	KMAX = (1u << t->m) - 1;
	if (t->n > KMAX)
		KMAX = t->n;
}

/* ------------------------------------------------------------------ library <-> native */
static ec_curve_t *CURVE;		/* heap: redzones around the (large) precomputed tables */

static void
bn_set_u64(bn_p bn, size_t bits, uint64_t v) {
	size_t i;
	memset(bn, C02_FILL, sizeof(*bn));	/* only num[0 .. digits) is meaningful in a bn_t */
	bn_init(bn, bits);
	for (i = 0; 0 != v && i < bn->count; i ++) {
		bn->num[i] = (bn_digit_t)v;
#if BN_DIGIT_BIT_CNT >= 64
		v = 0;
#else
		v >>= BN_DIGIT_BIT_CNT;
#endif
		bn->digits = (i + 1);
	}
	if (0 != v) { fprintf(stderr, "C02 harness: scalar does not fit\n"); exit(3); }
}
static uint64_t
bn_get_u64(bn_p bn, int *ovf) {
	uint64_t v = 0;
	size_t i;
	for (i = bn->digits; i > 0; i --) {
		if (0 != bn->num[i - 1] && ((i - 1) * BN_DIGIT_BIT_CNT) >= 64) { (*ovf) = 1; continue; }
#if BN_DIGIT_BIT_CNT >= 64
		v = (uint64_t)bn->num[i - 1];
#else
		v = (v << BN_DIGIT_BIT_CNT) | (uint64_t)bn->num[i - 1];
#endif
	}
	return (v);
}
static void
pt_set(ec_point_p P, size_t bits, np_t v) {
	memset(P, C02_FILL, sizeof(*P));
	bn_set_u64(&P->x, bits, v.inf ? 0 : v.x);
	bn_set_u64(&P->y, bits, v.inf ? 0 : v.y);
	P->infinity = v.inf ? 1 : 0;
}
/* returns 0 when a coordinate does not fit 32 bits (then it is certainly not reduced) */
static int
pt_get(ec_point_p P, np_t *v) {
	int ovf = 0;
	uint64_t x, y;
	if (0 != P->infinity) { (*v) = NP_O; return (1); }
	x = bn_get_u64(&P->x, &ovf);
	y = bn_get_u64(&P->y, &ovf);
	v->x = (uint32_t)x; v->y = (uint32_t)y; v->inf = 0;
	return (0 == ovf && x <= 0xffffffffu && y <= 0xffffffffu);
}

#define PAINT_SMALL	(32 * 1024)
#if EC_PF_UNKPT_MULT_ALGO != EC_PF_UNKPT_MULT_ALGO_BIN
#define PAINT_DEEP	(sizeof(ec_pt_unkpt_mult_data_t) + 64 * 1024)	/* the unknown-point table lives on the stack */
#else
#define PAINT_DEEP	(64 * 1024)
#endif
#define NOINLINE __attribute__((noinline))
static void NOINLINE
paint_small(void) {
	volatile char pad[PAINT_SMALL];
	memset((void *)pad, C02_FILL, sizeof(pad));
	__asm__ volatile("" : : "r"(pad) : "memory");
}
static void NOINLINE
paint_deep(void) {
	volatile char pad[PAINT_DEEP];
	memset((void *)pad, C02_FILL, sizeof(pad));
	__asm__ volatile("" : : "r"(pad) : "memory");
}
/* the calls under test */
static int NOINLINE call_add(ec_point_p a, ec_point_p b) { return (ec_point_add(a, b, CURVE)); }
static int NOINLINE call_sub(ec_point_p a, ec_point_p b) { return (ec_point_sub(a, b, CURVE)); }
static int NOINLINE call_unk(ec_point_p p, bn_p d) { return (ec_point_unknown_pt_mult(p, d, CURVE)); }
static int NOINLINE call_bp(bn_p d, ec_point_p r) { return (ec_point_mult_bp(d, CURVE, r)); }
static int NOINLINE call_twin_bp(bn_p d1, ec_point_p q, bn_p d2, ec_point_p r) { return (ec_point_twin_mult_bp(d1, q, d2, CURVE, r)); }
static int NOINLINE call_twin(ec_point_p a, bn_p d1, ec_point_p q, bn_p d2, ec_point_p r) { return (ec_point_twin_mult(a, d1, q, d2, CURVE, r)); }
static int NOINLINE call_setup(ec_curve_str_p cs) { return (ecdsa_curve_from_str(cs, CURVE)); }
static int NOINLINE call_validate(int *w) { return (ec_curve_validate(CURVE, w)); }

/* ------------------------------------------------------------------ case description */
static struct {
	const char *curve, *op;
	np_t P, Q;
	uint32_t k1, k2;
} cur;
static void
desc_tiny(char *b, size_t n) {
	char p[40], q[40];
	if (cur.P.inf) strcpy(p, "O"); else snprintf(p, sizeof(p), "(%u,%u)", cur.P.x, cur.P.y);
	if (cur.Q.inf) strcpy(q, "O"); else snprintf(q, sizeof(q), "(%u,%u)", cur.Q.x, cur.Q.y);
	snprintf(b, n, "%s curve=%s op=%s P=%s Q=%s k1=%u k2=%u", CFG_TEXT, cur.curve, cur.op, p, q, cur.k1, cur.k2);
}

/* oracle clauses shared by every tiny case */
static void
tiny_check(int rc, ec_point_p R, np_t want, int interesting) {
	np_t got;
	int fits;

	if (0 != rc) {
		vh_fail(clause("rc"), "returned %d on valid operands", rc);
		return;
	}
	fits = pt_get(R, &got);
	if (!fits || !n_on_curve(got)) {
		vh_fail(clause("off-curve"), "result (%u,%u)%s is not a point of the curve; textbook law gives %s(%u,%u)",
		    got.x, got.y, fits ? "" : " [coordinate wider than 32 bits]", want.inf ? "O " : "", want.x, want.y);
		return;
	}
	if (!n_eq(got, want)) {
		vh_fail(clause("mismatch"), "got %s(%u,%u), textbook law gives %s(%u,%u)",
		    got.inf ? "O " : "", got.x, got.y, want.inf ? "O " : "", want.x, want.y);
		return;
	}
	vh_outcome(&got, sizeof(got));
	if (interesting)
		vh_nontrivial();
}

/* ------------------------------------------------------------------ alphabets */
#define ALPHA_MAX 40
static np_t PA[ALPHA_MAX]; static int PA_N;	/* operand alphabet of the current curve */
static uint32_t *KA; static int KA_N;		/* scalar alphabet of the current curve */

static void
pa_add(np_t P) {
	int i;
	for (i = 0; i < PA_N; i ++) if (n_eq(PA[i], P)) return;
	if (PA_N < ALPHA_MAX) PA[PA_N ++] = P;
}
static int
cmp_u32(const void *a, const void *b) {
	uint32_t x = *(const uint32_t *)a, y = *(const uint32_t *)b;
	return ((x > y) - (x < y));
}
static void
alphabets_build(void) {
	np_t G, T, U;
	uint32_t i, j, n = TC->n, cap = 4096, cnt = 0, m = TC->m;
	static const uint32_t B[] = { 0x00, 0x01, 0x7f, 0x80, 0xaa, 0xff };

	G.x = TC->gx; G.y = TC->gy; G.inf = 0;
	PA_N = 0;
	pa_add(NP_O); pa_add(G); pa_add(n_neg(G));
	T = n_add(G, G); pa_add(T); pa_add(n_neg(T)); pa_add(n_add(T, G));
	/* half of G: ((n+1)/2) * G */
	for (i = 0, U = NP_O; i < (n + 1) / 2; i ++) U = n_add(U, G);
	pa_add(U);
	for (i = 1; i < GRP_N; i ++) if (0 == GRP[i].y) { pa_add(GRP[i]); pa_add(n_add(GRP[i], G)); }
	for (i = 1; i < GRP_N; i ++) {	/* first point of order 4 and its inverse */
		T = n_add(GRP[i], GRP[i]);
		if (!T.inf && 0 == T.y) { pa_add(GRP[i]); pa_add(n_neg(GRP[i])); break; }
	}
	pa_add(GRP[1]); pa_add(GRP[GRP_N - 1]);	/* smallest / largest x (x == 0 when the curve has it) */
	pa_add(GRP[GRP_N / 2]);
	/* scalars */
	free(KA);
	KA = (uint32_t *)malloc(sizeof(uint32_t) * cap);
#define K_ADD(v) do { uint64_t _v = (v); if (_v <= KMAX && cnt < cap) KA[cnt ++] = (uint32_t)_v; } while (0)
	for (i = 0; i <= 17; i ++) K_ADD(i);
	for (i = 1; i <= m + 1; i ++) { K_ADD((1ull << i) - 1); K_ADD(1ull << i); K_ADD((1ull << i) + 1); }
	K_ADD(n - 2); K_ADD(n - 1); K_ADD(n); K_ADD(n + 1); K_ADD((n + 1) / 2); K_ADD((n - 1) / 2);
	K_ADD(2 * (uint64_t)n - 1); K_ADD(KMAX); K_ADD(KMAX - 1);
	K_ADD(0xaaaaaaaau & ((1u << m) - 1)); K_ADD(0x55555555u & ((1u << m) - 1));
	if (16 == m)
		for (i = 0; i < 6; i ++) for (j = 0; j < 6; j ++) K_ADD((B[i] << 8) | B[j]);
	qsort(KA, cnt, sizeof(uint32_t), cmp_u32);
	for (i = 0, j = 0; i < cnt; i ++) if (0 == i || KA[i] != KA[i - 1]) KA[j ++] = KA[i];
	KA_N = (int)j;
}

/* ------------------------------------------------------------------ tiny curve: targets */
static uint64_t st_comb_eligible_bp = 0, st_comb_eligible_unk = 0;

static int
comb_eligible(bn_p d) {	/* mirrors the "dont know how to mult" test of the comb code: for the statistics only */
	return ((d->digits * BN_DIGIT_BITS) <= CURVE->m);
}

static void
do_add_pair(np_t P, np_t Q, size_t bits) {
	ec_point_t a, b;
	int rc;

	cur.P = P; cur.Q = Q; cur.k1 = cur.k2 = 0;
	CASE_TAG = "";
	if (vh_begin(TGT_ADD)) {
		cur.op = "P+Q";
		pt_set(&a, bits, P); pt_set(&b, bits, Q);
		paint_small();
		rc = call_add(&a, &b);
		tiny_check(rc, &a, n_add(P, Q), (!P.inf && !Q.inf));
	}
	if (vh_begin(TGT_SUB)) {
		cur.op = "P-Q";
		pt_set(&a, bits, P); pt_set(&b, bits, Q);
		paint_small();
		rc = call_sub(&a, &b);
		tiny_check(rc, &a, n_add(P, n_neg(Q)), (!P.inf && !Q.inf));
	}
}

static void
tiny_add_sub_dbl(int curve_idx) {
	uint32_t i, j, step;
	int a;
	size_t bits = EC_CURVE_CALC_BITS_DBL(CURVE);	/* operand capacity used by ec_self_test() */
	ec_point_t p;
	int rc;

	if (8 == TC->m) {		/* every ordered pair of the group */
		for (i = 0; i < GRP_N; i ++)
			for (j = 0; j < GRP_N; j ++)
				do_add_pair(GRP[i], GRP[j], bits);
	} else {			/* alphabet x group in both operand positions */
		step = vh_thorough ? ((8 == curve_idx) ? 3 : 7) : 61;
		for (a = 0; a < PA_N; a ++) {
			for (j = 0; j < (uint32_t)PA_N; j ++)
				do_add_pair(PA[a], PA[j], bits);
			for (j = 0; j < GRP_N; j += step) {
				do_add_pair(PA[a], GRP[j], bits);
				do_add_pair(GRP[j], PA[a], bits);
			}
		}
	}
	for (i = 0; i < GRP_N; i ++) {	/* doubling through one pointer, every point */
		cur.P = cur.Q = GRP[i]; cur.k1 = cur.k2 = 0;
		CASE_TAG = "";
		if (!vh_begin(TGT_DBL))
			continue;
		cur.op = "P+P";
		pt_set(&p, bits, GRP[i]);
		paint_small();
		rc = call_add(&p, &p);
		tiny_check(rc, &p, n_add(GRP[i], GRP[i]), !GRP[i].inf);
	}
}

static void
unk_one(np_t P, uint32_t k, const np_t *mult) {
	ec_point_t p;
	bn_t d;
	int rc;

	cur.P = P; cur.Q = NP_O; cur.k1 = k; cur.k2 = 0;
	if (!vh_begin(TGT_UNK))
		return;
	cur.op = "k1*P";
	case_tag_scalars(0 == k, (k >> TC->m) != 0);
	pt_set(&p, CURVE->m, P);	/* capacity used by ecdsa_dh() */
	bn_set_u64(&d, EC_CURVE_CALC_BITS_DBL(CURVE), k);
	if (comb_eligible(&d)) st_comb_eligible_unk ++;
	paint_deep();
	rc = call_unk(&p, &d);
	tiny_check(rc, &p, mult[k], (!P.inf && k > 1));
}

/* The table of an unknown point is rebuilt inside every call: 2^w (comb2t: 2^(w+1)) point
 * operations.  Wide windows therefore get the operand alphabet instead of the whole group. */
#if (EC_PF_UNKPT_MULT_ALGO == EC_PF_UNKPT_MULT_ALGO_BIN) || (EC_PF_UNKPT_MULT_ALGO == EC_PF_UNKPT_MULT_ALGO_BIN_PRECALC_DBL)
#define UNK_TABLE_LOG2 0
#else
#define UNK_TABLE_LOG2 EC_PF_UNKPT_MULT_WIN_BITS
#endif

static void
tiny_unk(void) {
	uint32_t i, k;
	int a, j;
	np_t *mult;
	int rich = (0 == strcmp(TC->name, "t8_gen_h4_cyc"));	/* cofactor 4: points of order 1, 2, 4, n, 2n, 4n */
	int whole_group = (rich && (UNK_TABLE_LOG2 <= 4) && (vh_thorough || UNK_TABLE_LOG2 <= 2));

#ifdef C02_PROBE
	{
		static const uint32_t pk[] = { 2, 3, 5, 0xff };
		mult = n_multiples(PA[1], KMAX + 1);
		for (i = 0; i < 4; i ++)
			unk_one(PA[1], pk[i], mult);
		free(mult);
		return;
	}
#endif
	if (whole_group) {
		for (i = 0; i < GRP_N; i ++) {
			mult = n_multiples(GRP[i], KMAX + 1);
			for (k = 0; k <= KMAX; k ++)
				unk_one(GRP[i], k, mult);
			free(mult);
		}
		return;
	}
	for (a = 0; a < PA_N; a ++) {
		if (UNK_TABLE_LOG2 >= 8 && a >= 6)
			break;		/* 2^9 .. 2^10 point operations per call: O, G, -G, 2G, -2G, 3G only */
		mult = n_multiples(PA[a], KMAX + 1);
		if (8 == TC->m && (UNK_TABLE_LOG2 < 8 || 1 == a)) {
			for (k = 0; k <= KMAX; k ++)
				unk_one(PA[a], k, mult);
		} else {
			for (j = 0; j < KA_N; j ++)
				unk_one(PA[a], KA[j], mult);
			if (UNK_TABLE_LOG2 <= 4)
				for (k = 18; k < (vh_thorough ? 1024u : 128u); k ++)
					unk_one(PA[a], k, mult);
		}
		free(mult);
	}
}

static void
bp_one(uint32_t k, const np_t *mult) {
	ec_point_t r;
	bn_t d;
	int rc;

	cur.P = NP_O; cur.Q = NP_O; cur.k1 = k; cur.k2 = 0;
	if (!vh_begin(TGT_BP))
		return;
	cur.op = "k1*G";
	case_tag_scalars(0 == k, (k >> TC->m) != 0);
	pt_set(&r, CURVE->m, NP_O);	/* result capacity used by ecdsa_verify_priv_key() */
	r.infinity = 0;
	bn_set_u64(&d, EC_CURVE_CALC_BITS_DBL(CURVE), k);
	if (comb_eligible(&d)) st_comb_eligible_bp ++;
	paint_small();
	rc = call_bp(&d, &r);
	tiny_check(rc, &r, mult[k], (k > 1));
}

static void
tiny_bp(int curve_idx) {
	uint32_t k, lim;
	int j;
	np_t G, *mult;

	G.x = TC->gx; G.y = TC->gy; G.inf = 0;
	mult = n_multiples(G, KMAX + 1);
	if (8 == TC->m || (vh_thorough && 8 == curve_idx)) {
		for (k = 0; k <= KMAX; k ++)
			bp_one(k, mult);
	} else {
		for (j = 0; j < KA_N; j ++)
			bp_one(KA[j], mult);
		lim = vh_thorough ? 4096u : 512u;
		for (k = 18; k < lim; k ++)
			bp_one(k, mult);
	}
	free(mult);
}

static void
twin_one(int generic, np_t A, uint32_t k1, np_t Q, uint32_t k2, np_t want) {
	ec_point_t a, q, r;
	bn_t d1, d2;
	int rc;

	cur.P = A; cur.Q = Q; cur.k1 = k1; cur.k2 = k2;
	if (!vh_begin(generic ? TGT_TWIN : TGT_TWINBP))
		return;
	cur.op = generic ? "k1*P+k2*Q" : "k1*G+k2*Q";
	case_tag_scalars((0 == k1 || 0 == k2), ((k1 >> TC->m) != 0 || (k2 >> TC->m) != 0));
	pt_set(&q, CURVE->m, Q);
	pt_set(&r, CURVE->m, NP_O);	/* ecdsa_verify(): R has curve->m bits */
	r.infinity = 0;
	bn_set_u64(&d1, EC_CURVE_CALC_BITS_DBL(CURVE), k1);
	bn_set_u64(&d2, EC_CURVE_CALC_BITS_DBL(CURVE), k2);
	paint_deep();
	if (generic) {
		pt_set(&a, CURVE->m, A);
		rc = call_twin(&a, &d1, &q, &d2, &r);
	} else {
		rc = call_twin_bp(&d1, &q, &d2, &r);
	}
	tiny_check(rc, &r, want, (k1 > 1 && k2 > 1 && !Q.inf));
}

static void
tiny_twin(int smallest) {
	uint32_t i, k1, k2, n = TC->n;
	int a, b, j1, j2, nk;
	np_t G, *mg, *mq, *ma;
	uint32_t ks[64];

	G.x = TC->gx; G.y = TC->gy; G.inf = 0;
	mg = n_multiples(G, KMAX + 1);
	if (smallest && C02_TWIN_FULL) {	/* all (k1, k2, Q): k in [0, n], Q the whole group (quick: alphabet) */
		/* Q: the whole group on the smallest curve (thorough), the operand alphabet otherwise */
		int whole = (vh_thorough && 0 == strcmp(TC->name, "t8_gen_h4_cyc"));
		uint32_t cntq = whole ? GRP_N : (uint32_t)PA_N;
		for (i = 0; i < cntq; i ++) {
			np_t Q = whole ? GRP[i] : PA[i];
			mq = n_multiples(Q, n + 1);
			for (k1 = 0; k1 <= n; k1 ++)
				for (k2 = 0; k2 <= n; k2 ++)
					twin_one(0, G, k1, Q, k2, n_add(mg[k1], mq[k2]));
			free(mq);
		}
	}
	/* scalar alphabet (a subset of KA that keeps the pair count reasonable) */
	nk = 0;
	for (j1 = 0; j1 < KA_N && nk < 64; j1 ++) {
		uint32_t k = KA[j1];
		int keep = (k <= 5 || k == 7 || k == 8 || k == 15 || k == 16 || k == 17 || k >= KMAX - 1 ||
		    k == n - 1 || k == n || k == n + 1 || k == (n + 1) / 2 ||
		    k == (0xaaaaaaaau & ((1u << TC->m) - 1)) || k == (0x55555555u & ((1u << TC->m) - 1)) ||
		    (0 == (k & (k - 1)) && k >= 32) || (0 == (k & (k + 1)) && k >= 31) || k == 0x7f80 || k == 0x80ff || k == 0xff01);
		if (keep && !C02_TWIN_FULL)	/* cross builds: the glue is under test, a smaller alphabet */
			keep = (k <= 3 || k == 5 || k == 8 || k >= KMAX || k == n - 1 || k == n || k == n + 1 ||
			    k == (1u << (TC->m - 1)) || k == (1u << (TC->m - 1)) - 1 ||
			    k == (0xaaaaaaaau & ((1u << TC->m) - 1)) || k == (0x55555555u & ((1u << TC->m) - 1)));
		if (keep) ks[nk ++] = k;
	}
	for (a = 0; a < PA_N; a ++) {
		mq = n_multiples(PA[a], KMAX + 1);
		for (j1 = 0; j1 < nk; j1 ++)
			for (j2 = 0; j2 < nk; j2 ++)
				twin_one(0, G, ks[j1], PA[a], ks[j2], n_add(mg[ks[j1]], mq[ks[j2]]));
		free(mq);
	}
	/* two arbitrary points (ec_self_test uses ec_point_twin_mult this way) */
	for (a = 3; a < PA_N; a += 3) {
		ma = n_multiples(PA[a], KMAX + 1);
		for (b = 0; b < PA_N; b += 2) {
			mq = n_multiples(PA[b], KMAX + 1);
			for (j1 = 0; j1 < nk; j1 += 2)
				for (j2 = 1; j2 < nk; j2 += 2)
					twin_one(1, PA[a], ks[j1], PA[b], ks[j2], n_add(ma[ks[j1]], mq[ks[j2]]));
			free(mq);
		}
		free(ma);
	}
	free(mg);
}

static void
tiny_all(void) {
	size_t i;
	int rc, smallest, owns;
	c02_tiny_curve_str_t cs;

	vh_set_describer(desc_tiny);
	for (i = 0; i < C02_TINY_CURVES_CNT; i ++) {
		const c02_tiny_curve_t *t = &c02_tiny_curves[i];
		if (0 == ((C02_TINY_MASK >> i) & 1))
			continue;
		tiny_group_build(t);
		alphabets_build();
		cur.curve = t->name; cur.P = cur.Q = NP_O; cur.k1 = cur.k2 = 0; cur.op = "setup";
		c02_tiny_curve_to_str(t, &cs);
		CASE_TAG = "";
		owns = vh_begin(TGT_SETUP);	/* every shard builds the curve, one owns the case */
		paint_deep();
		rc = call_setup(&cs.str);
		if (0 != rc) {
			if (owns)
				vh_fail("rc", "returned %d for a valid curve (table precomputation included)", rc);
			continue;	/* nothing can be computed on this curve in this configuration */
		}
		if (owns)
			vh_nontrivial();
		smallest = (0 == strcmp(t->name, "t8_gen_h4_cyc") || 0 == strcmp(t->name, "t8_m3_h4_v4"));
		if (C02_TARGETS & T_ADD) tiny_add_sub_dbl((int)i);
		if (C02_TARGETS & T_UNK) tiny_unk();
		if (C02_TARGETS & T_BP) tiny_bp((int)i);
		if (C02_TARGETS & T_TWIN) tiny_twin(smallest);
	}
	vh_set_describer(NULL);
}

/* ------------------------------------------------------------------ built-in curves */
#ifdef C02_REAL_TABLE
#define RL_MAX 8192
static char *rf[12]; static int rfn;

static int
split(char *line) {
	char *s = line;
	rfn = 0;
	while (rfn < 12) {
		while (' ' == *s) s ++;
		if (0 == *s || '\n' == *s) break;
		rf[rfn ++] = s;
		while (0 != *s && ' ' != *s && '\n' != *s) s ++;
		if (0 == *s) break;
		*s ++ = 0;
	}
	return (rfn);
}

/* canonical lower-case hex of a bn without leading zeros, written by hand from the digits */
static void
bn_hex(bn_p bn, char *out, size_t out_size) {
	static const char hx[] = "0123456789abcdef";
	size_t i, o = 0;
	int b, started = 0;
	for (i = bn->digits; i > 0; i --) {
		for (b = (int)BN_DIGIT_BIT_CNT - 4; b >= 0; b -= 4) {
			unsigned v = (unsigned)((bn->num[i - 1] >> b) & 0xf);
			if (0 == v && !started) continue;
			started = 1;
			if (o + 1 < out_size) out[o ++] = hx[v];
		}
	}
	if (!started) out[o ++] = '0';
	out[o] = 0;
}
static const char *
skip0(const char *s) {
	while ('0' == s[0] && 0 != s[1]) s ++;
	return (s);
}
static int
real_pt_load(ec_point_p P, size_t bits, const char *x, const char *y) {
	int rc;
	memset(P, C02_FILL, sizeof(*P));
	if (0 != (rc = ec_point_init(P, bits))) return (rc);
	if ('-' == x[0]) { P->infinity = 1; return (0); }
	if (0 != (rc = bn_import_be_hex(&P->x, (const uint8_t *)x, strlen(x)))) return (rc);
	return (bn_import_be_hex(&P->y, (const uint8_t *)y, strlen(y)));
}
static int
real_k_load(bn_p k, const char *s) {
	int rc;
	memset(k, C02_FILL, sizeof(*k));
	if (0 != (rc = bn_init(k, EC_CURVE_CALC_BITS_DBL(CURVE)))) return (rc);
	return (bn_import_be_hex(k, (const uint8_t *)s, strlen(s)));
}
static void
real_check(int rc, ec_point_p R, const char *wx, const char *wy, int interesting) {
	char gx[600], gy[600];

	if (0 != rc) { vh_fail(clause("rc"), "returned %d on valid operands", rc); return; }
	if (0 != R->infinity) {
		if ('-' != wx[0]) vh_fail(clause("mismatch"), "got O, textbook law gives (%s,%s)", wx, wy);
		else { vh_outcome("O", 1); if (interesting) vh_nontrivial(); }
		return;
	}
	bn_hex(&R->x, gx, sizeof(gx)); bn_hex(&R->y, gy, sizeof(gy));
	if ('-' == wx[0]) { vh_fail(clause("mismatch"), "got (%s,%s), textbook law gives O", gx, gy); return; }
	if (0 != strcmp(gx, skip0(wx)) || 0 != strcmp(gy, skip0(wy))) {
		vh_fail(clause("mismatch"), "got (%s,%s), textbook law gives (%s,%s)", gx, gy, wx, wy);
		return;
	}
	vh_outcome(gx, strlen(gx));
	if (interesting) vh_nontrivial();
}

static char real_desc[900];
static void desc_real(char *b, size_t n) { snprintf(b, n, "%s", real_desc); }

static void
real_all(void) {
	FILE *f = fopen(C02_REAL_TABLE, "r");
	static char line[RL_MAX], keep[RL_MAX];
	static char px[16][300], py[16][300];
	int active = 0, idx, rc, warn, npts = 0, i, owns;
	ec_curve_str_p cs;
	ec_point_t a, b, r;
	bn_t k1, k2;
	size_t bits_dbl = 0;

	if (NULL == f) { fprintf(stderr, "C02 harness: cannot open %s\n", C02_REAL_TABLE); exit(3); }
	vh_set_describer(desc_real);
	while (NULL != fgets(line, sizeof(line), f)) {
		memcpy(keep, line, sizeof(keep));
		if (0 == split(line))
			continue;
		if ('C' == rf[0][0]) {
			idx = atoi(rf[1]);
			active = 0;
			if (0 == ((C02_REAL_MASK >> idx) & 1))
				continue;
			/* by position, not ecdsa_curve_str_get_by_name(): one record's name_size is not strlen(name) */
			if ((size_t)idx >= nitems(ec_curve_str) || 0 != strcmp(ec_curve_str[idx].name, rf[2])) {
				fprintf(stderr, "C02 harness: built-in curve %d is not %s\n", idx, rf[2]);
				exit(3);
			}
			cs = &ec_curve_str[idx];
			snprintf(real_desc, sizeof(real_desc), "%s curve=%s setup", CFG_TEXT, rf[2]);
			CASE_TAG = "";
			owns = vh_begin(TGT_SETUP);
			paint_deep();
			rc = call_setup(cs);
			if (0 != rc) {
				if (owns)
					vh_fail("rc", "returned %d for a built-in curve (table precomputation included)", rc);
				continue;
			}
			if (owns)
				vh_nontrivial();
			active = 1;
			npts = 0;
			bits_dbl = EC_CURVE_CALC_BITS_DBL(CURVE);
			if (vh_begin(TGT_VALIDATE)) {
				warn = 0;
				snprintf(real_desc, sizeof(real_desc), "%s curve=%s validate", CFG_TEXT, rf[2]);
				paint_deep();
				rc = call_validate(&warn);
				/* not part of the property: recorded, never a violation */
				if (0 != rc) printf("NOTE\tec_curve_validate(%s) returned %d in this configuration\n", rf[2], rc);
				else vh_nontrivial();
				if ('1' != rf[10][0])
					vh_fail("a_m3-flag-vs-a", "EC_CURVE_FLAG_A_M3 is set but a != p - 3: the shortcuts compute another curve");
			}
			strncpy(px[0], "-", 2); strncpy(py[0], "-", 2);
			continue;
		}
		if (!active)
			continue;
		switch (rf[0][0]) {
		case 'P':
			i = atoi(rf[1]);
			if (i > 0 && i < 16) { snprintf(px[i], 300, "%s", rf[2]); snprintf(py[i], 300, "%s", rf[3]); if (i > npts) npts = i; }
			break;
		case 'A':
			if (0 == (C02_TARGETS & T_ADD)) break;
			{
				int ip = atoi(rf[2]), iq = atoi(rf[3]);
				const char *tgt = ('a' == rf[1][0]) ? TGT_ADD : (('s' == rf[1][0]) ? TGT_SUB : TGT_DBL);
				if (!vh_begin(tgt)) break;
				snprintf(real_desc, sizeof(real_desc), "%s curve=%s %.300s", CFG_TEXT, cs->name, keep);
				real_desc[strcspn(real_desc, "\n")] = 0;
				CASE_TAG = "";
				real_pt_load(&a, bits_dbl, px[ip], py[ip]);
				real_pt_load(&b, bits_dbl, px[iq], py[iq]);
				paint_small();
				if ('a' == rf[1][0]) rc = call_add(&a, &b);
				else if ('s' == rf[1][0]) rc = call_sub(&a, &b);
				else rc = call_add(&a, &a);
				real_check(rc, &a, rf[4], rf[5], (0 != ip && (0 != iq || 'd' == rf[1][0])));
			}
			break;
		case 'U':
			if (0 == (C02_TARGETS & T_UNK)) break;
			if (!vh_begin(TGT_UNK)) break;
			snprintf(real_desc, sizeof(real_desc), "%s curve=%s %.300s", CFG_TEXT, cs->name, keep);
			real_desc[strcspn(real_desc, "\n")] = 0;
			i = atoi(rf[1]);
			real_pt_load(&a, CURVE->m, px[i], py[i]);
			real_k_load(&k1, rf[2]);
			if (comb_eligible(&k1)) st_comb_eligible_unk ++;
			case_tag_scalars(0 == k1.digits, bn_calc_bits(&k1) > CURVE->m);
			paint_deep();
			rc = call_unk(&a, &k1);
			real_check(rc, &a, rf[3], rf[4], (0 != i && k1.digits > 0 && !bn_is_one(&k1)));
			break;
		case 'B':
			if (0 == (C02_TARGETS & T_BP)) break;
			if (!vh_begin(TGT_BP)) break;
			snprintf(real_desc, sizeof(real_desc), "%s curve=%s %.300s", CFG_TEXT, cs->name, keep);
			real_desc[strcspn(real_desc, "\n")] = 0;
			real_pt_load(&r, CURVE->m, "0", "0");
			real_k_load(&k1, rf[1]);
			if (comb_eligible(&k1)) st_comb_eligible_bp ++;
			case_tag_scalars(0 == k1.digits, bn_calc_bits(&k1) > CURVE->m);
			paint_small();
			rc = call_bp(&k1, &r);
			real_check(rc, &r, rf[2], rf[3], (k1.digits > 0 && !bn_is_one(&k1)));
			break;
		case 'T':
			if (0 == (C02_TARGETS & T_TWIN)) break;
			if (!vh_begin(TGT_TWINBP)) break;
			snprintf(real_desc, sizeof(real_desc), "%s curve=%s %.400s", CFG_TEXT, cs->name, keep);
			real_desc[strcspn(real_desc, "\n")] = 0;
			i = atoi(rf[2]);
			real_pt_load(&b, CURVE->m, px[i], py[i]);
			real_pt_load(&r, CURVE->m, "0", "0");
			real_k_load(&k1, rf[1]); real_k_load(&k2, rf[3]);
			case_tag_scalars((0 == k1.digits || 0 == k2.digits), (bn_calc_bits(&k1) > CURVE->m || bn_calc_bits(&k2) > CURVE->m));
			paint_deep();
			rc = call_twin_bp(&k1, &b, &k2, &r);
			real_check(rc, &r, rf[4], rf[5], (0 != i && k1.digits > 0 && k2.digits > 0));
			break;
		case 'W':
			if (0 == (C02_TARGETS & T_TWIN)) break;
			if (!vh_begin(TGT_TWIN)) break;
			snprintf(real_desc, sizeof(real_desc), "%s curve=%s %.400s", CFG_TEXT, cs->name, keep);
			real_desc[strcspn(real_desc, "\n")] = 0;
			real_pt_load(&a, CURVE->m, px[atoi(rf[1])], py[atoi(rf[1])]);
			i = atoi(rf[3]);
			real_pt_load(&b, CURVE->m, px[i], py[i]);
			real_pt_load(&r, CURVE->m, "0", "0");
			real_k_load(&k1, rf[2]); real_k_load(&k2, rf[4]);
			case_tag_scalars((0 == k1.digits || 0 == k2.digits), (bn_calc_bits(&k1) > CURVE->m || bn_calc_bits(&k2) > CURVE->m));
			paint_deep();
			rc = call_twin(&a, &k1, &b, &k2, &r);
			real_check(rc, &r, rf[5], rf[6], (0 != i && k1.digits > 0 && k2.digits > 0));
			break;
		default:
			break;
		}
	}
	fclose(f);
	vh_set_describer(NULL);
}
#endif /* C02_REAL_TABLE */

int
main(int argc, char **argv) {
	vh_init(argc, argv);
	names_init();
	CURVE = (ec_curve_t *)malloc(sizeof(ec_curve_t));
	if (0 != C02_TINY_MASK)
		tiny_all();
#ifdef C02_REAL_TABLE
	if (0 != C02_REAL_MASK)
		real_all();
#endif
	/* measured, for the evidence: scalars short enough for the comb code proper (no binary fallback) */
	if (C02_TARGETS & T_BP)
		printf("STAT\t%s\tscalar_digits_fit_m\t%llu\n", TGT_BP, (unsigned long long)st_comb_eligible_bp);
	if (C02_TARGETS & T_UNK)
		printf("STAT\t%s\tscalar_digits_fit_m\t%llu\n", TGT_UNK, (unsigned long long)st_comb_eligible_unk);
	return (vh_finish());
}
