"""C02 - elliptic-curve group law and scalar multiplication in every build.

One harness source (h_c02.c) is compiled once per configuration of <math/elliptic_curve.h>;
every binary enumerates its share of the operand space on the synthetic curves of tiny_curves.h
(native textbook oracle inside the harness) and on the built-in curves (expected points written
at check time by gen_real_expected.py).  Configurations that do not compile are reported as
skipped (rep.notes), not as violations."""
import os, sys, time, threading, importlib
from concurrent.futures import ThreadPoolExecutor
from vlib import core

HERE = os.path.dirname(os.path.abspath(__file__))
PROP = 'C02'

T_ADD, T_UNK, T_BP, T_TWIN = 1, 2, 4, 8
COORDS = {
    'aff':   [],
    'jac':   ['-DEC_USE_PROJECTIVE'],
    'jacM':  ['-DEC_USE_PROJECTIVE', '-DEC_PROJ_ADD_MIX'],
    'jacR':  ['-DEC_USE_PROJECTIVE', '-DEC_PROJ_REPEAT_DOUBLE'],
    'jacMR': ['-DEC_USE_PROJECTIVE', '-DEC_PROJ_ADD_MIX', '-DEC_PROJ_REPEAT_DOUBLE'],
}
ALGO = {'BIN': 0, 'PRE': 1, 'SW': 2, 'C1': 3, 'C2': 4, 'SAME': 5}   # EC_PF_FXP_MULT_ALGO_* / EC_PF_UNKPT_MULT_ALGO_*
TWIN = {'BIN': 0, 'FU': 1, 'JOINT': 2, 'INTER': 3}                  # EC_PF_TWIN_MULT_ALGO_*
SW_W = [1, 2, 4, 8]                 # sliding window: powers of two, not wider than the narrowest digit
# comb: any width up to the digit width (the column index is a bn_digit_t, NOTES.md section 4); 3, 5, 6, 9 do not
# divide m, 6 gives an odd number of columns for m = 16, 8 / 9 give one or two columns
COMB_W = {8: [1, 2, 3, 4, 5, 6, 8], 16: [1, 2, 3, 4, 5, 8, 9], 32: [1, 2, 3, 4, 5, 8, 9], 64: [1, 2, 3, 4, 5, 8, 9]}

# synthetic curves (index in tiny_curves.h)
TINY_ALL = 0xFFFF
TINY_2POWER = (1 << 5) | (1 << 12) | (1 << 13)            # cyclic 2-part of order 4 / 16 / 32: points of order 2^k
TINY_B0 = (1 << 14) | (1 << 15)                          # b = 0: the group point (0, 0)
TINY_QUICK = (1 << 0) | (1 << 3) | (1 << 5) | (1 << 11)   # A_M3 prime order; a=0; cofactor 4 with order-4 points; 16-bit cofactor 2
# built-in curves (index in ec_curve_str[])
REAL_ALL = 0xFFFFFFFF
REAL_QUICK = (1 << 1) | (1 << 2) | (1 << 4) | (1 << 16)   # secp112r2 (h=4), secp128r1 (m = 2*64), secp160k1 (a=0, n 161 bits), brainpoolP256r1
REAL_QUICK_AFF = (1 << 1) | (1 << 2)
REAL_SMALL = 0x7F                                          # m <= 160: affordable with 8/16-bit digits
REAL_REPR = (1 << 1) | (1 << 2) | (1 << 5) | (1 << 14) | (1 << 16) | (1 << 19) | (1 << 31)   # h=4; m=2*64 A_M3; n 161 bits; a=0; generic a; GOST; 521 bits
REAL_REPR_AFF = (1 << 1) | (1 << 2) | (1 << 5) | (1 << 14)


def algo_flags(prefix, a):
    name, w = a
    f = ['-DEC_PF_%s_MULT_ALGO=%d' % (prefix, ALGO[name])]
    if w is not None:
        f.append('-DEC_PF_%s_MULT_WIN_BITS=%d' % (prefix, w))
    return f


def atag(a):
    return a[0] + ('' if a[1] is None else str(a[1]))


def mk(kind, coord, digit, fxp=('BIN', None), unk=('BIN', None), twin='BIN', targets=15, tiny=TINY_ALL, real=REAL_ALL, cost=1.0, extra=()):
    name = '%s-%s-d%d-f%s-u%s-t%s' % (kind, coord, digit, atag(fxp), atag(unk), twin)
    flags = list(COORDS[coord]) + ['-DBN_DIGIT_BIT_CNT=%d' % digit, '-DBN_CC_MULL_DIV']
    flags += algo_flags('FXP', fxp) + algo_flags('UNKPT', unk) + ['-DEC_PF_TWIN_MULT_ALGO=%d' % TWIN[twin]]
    flags += ['-DC02_TARGETS=%d' % targets, '-DC02_TINY_MASK=0x%xu' % tiny, '-DC02_REAL_MASK=0x%xu' % real] + list(extra)
    # the on-stack table types of the unknown-point algorithms are sized by the FXP window (NOTES.md F4):
    # unless a build is meant to show that, keep the FXP window at least as wide
    if fxp[1] is None and unk[1] is not None and unk[1] > 8 and '-DC02_PROBE' not in extra:
        flags.append('-DEC_PF_FXP_MULT_WIN_BITS=%d' % unk[1])
    return dict(name=name, flags=flags, cost=cost, kind=kind, coord=coord, digit=digit)


NOFULL = ['-DC02_TWIN_FULL=0']


def probe_configs(kind):
    """F4 (NOTES.md): an unknown-point window wider than the FXP window overruns the on-stack table in
    every call; these builds run four scalars per curve, just enough to show (or clear) it."""
    return [mk(kind, coord, 8, fxp=('C1', 2), unk=('C1', 4), targets=T_UNK, tiny=(1 << 0), real=0, cost=1, extra=['-DC02_PROBE'])
            for coord in ('aff', 'jacMR')]


def quick_configs():
    c = []
    def q(coord, digit, fxp, unk, twin):
        real = REAL_QUICK_AFF if coord == 'aff' else REAL_QUICK
        if digit < 64:
            real &= REAL_SMALL
        c.append(mk('q', coord, digit, fxp, unk, twin, 15, TINY_QUICK, real))
    q('aff',   8,  ('C2', 4),    ('SW', 2),    'JOINT')
    q('aff',   8,  ('PRE', None), ('PRE', None), 'FU')
    q('aff',   64, ('SW', 4),    ('C1', 2),    'BIN')
    q('jac',   8,  ('C1', 3),    ('C2', 3),    'INTER')
    q('jac',   64, ('BIN', None), ('BIN', None), 'JOINT')
    q('jacM',  8,  ('C2', 8),    ('C1', 2),    'JOINT')      # the header's defaults
    q('jacM',  64, ('PRE', None), ('SW', 4),    'INTER')
    q('jacR',  8,  ('SW', 2),    ('SAME', None), 'FU')
    q('jacR',  64, ('C1', 4),    ('PRE', None), 'JOINT')
    q('jacMR', 8,  ('C2', 5),    ('C1', 3),    'INTER')
    q('jacMR', 64, ('C2', 9),    ('C1', 2),    'INTER')      # what tests/ecdsa/main.c compiles
    q('jacMR', 16, ('C1', 2),    ('C2', 2),    'BIN')
    # repeated doubling on points of order 2^k: y reaches 0 in the last of the n doublings for n = window width / comb columns
    for coord, digit, fxp, unk in (('jacR', 8, ('SW', 1), ('SW', 1)), ('jacMR', 64, ('C2', 4), ('SW', 2)), ('jacR', 8, ('C2', 4), ('C2', 4)),
                                   ('jacMR', 8, ('SW', 4), ('SW', 4)), ('jacR', 64, ('C1', 3), ('C1', 3))):
        c.append(mk('q2p', coord, digit, fxp, unk, 'BIN', T_UNK | T_BP | T_ADD, TINY_2POWER, 0))
    # the group point (0, 0) of the b = 0 curves in every coordinate system
    for coord, digit, fxp, unk, twin in (('aff', 8, ('SW', 2), ('C1', 2), 'JOINT'), ('jac', 8, ('C1', 3), ('SW', 2), 'INTER'),
                                         ('jacM', 64, ('C2', 4), ('PRE', None), 'FU'), ('jacMR', 8, ('PRE', None), ('C2', 3), 'BIN')):
        c.append(mk('qb0', coord, digit, fxp, unk, twin, 15, TINY_B0, 0))
    return c + probe_configs('qprobe')[:1]


def algo_list(digit):
    return ([('BIN', None), ('PRE', None)] + [('SW', w) for w in SW_W] +
            [('C1', w) for w in COMB_W[digit]] + [('C2', w) for w in COMB_W[digit]])


D64_SUBSET = [('BIN', None), ('PRE', None), ('SW', 4), ('C1', 3), ('C2', 4), ('C2', 8)]
# Every algorithm has two projective versions (EC_PROJ_ADD_MIX or not) and an affine one: those three coordinate
# choices get every window width; EC_PROJ_REPEAT_DOUBLE only changes ec_point_proj_dbl_n(), so the two remaining
# combinations get every algorithm with one or two widths.
FULL_COORDS = ('aff', 'jac', 'jacMR')
TINY_CROSS = (1 << 0) | (1 << 1) | (1 << 5) | (1 << 6) | (1 << 8) | (1 << 10)


def algos_for(coord, digit):
    return algo_list(digit) if coord in FULL_COORDS else D64_SUBSET


def thorough_configs():
    c = []
    # (A) group law proper: coordinates x digit widths, whole group of every synthetic curve
    for coord in COORDS:
        for digit in (8, 64):
            c.append(mk('add', coord, digit, targets=T_ADD, real=(REAL_ALL if digit == 64 else REAL_SMALL), cost=60))
    for coord in ('aff', 'jacMR'):
        for digit in (16, 32):
            c.append(mk('add', coord, digit, targets=T_ADD, real=REAL_SMALL, cost=60))
    # (B) base-point multiplication: coordinates x EC_PF_FXP_MULT_ALGO x window bits
    for coord in COORDS:
        for a in algos_for(coord, 8):
            c.append(mk('fxp', coord, 8, fxp=a, targets=T_BP, real=REAL_SMALL, cost=4))
    for a in algo_list(64):
        c.append(mk('fxp', 'jacMR', 64, fxp=a, targets=T_BP, real=REAL_ALL, cost=15))
    for a in D64_SUBSET:
        c.append(mk('fxp', 'aff', 64, fxp=a, targets=T_BP, real=REAL_ALL, cost=25))
    for digit in (16, 32):
        for a in (('SW', 4), ('C1', 3), ('C2', 4)):
            c.append(mk('fxp', 'jacMR', digit, fxp=a, targets=T_BP, real=REAL_SMALL, cost=6))
    # (C) unknown-point multiplication: coordinates x EC_PF_UNKPT_MULT_ALGO x window bits
    for coord in COORDS:
        for a in algos_for(coord, 8):
            c.append(mk('unk', coord, 8, unk=a, targets=T_UNK, real=(1 << 2), cost=12))
        c.append(mk('unk', coord, 8, fxp=('C2', 4), unk=('SAME', None), targets=T_UNK, real=(1 << 2), cost=12))
    for a in algo_list(64):
        wide = a[1] is not None and a[1] >= 8
        c.append(mk('unk', 'jacMR', 64, unk=a, targets=T_UNK, real=(REAL_QUICK if wide else REAL_REPR), cost=20))
    for a in D64_SUBSET:
        wide = a[1] is not None and a[1] >= 8
        c.append(mk('unk', 'aff', 64, unk=a, targets=T_UNK, real=(REAL_QUICK_AFF if wide else REAL_REPR_AFF), cost=40))
    for digit in (16, 32):
        for a in (('SW', 4), ('C1', 3), ('C2', 2)):
            c.append(mk('unk', 'jacMR', digit, unk=a, targets=T_UNK, real=(1 << 2), cost=12))
    # (D) twin multiplication: coordinates x EC_PF_TWIN_MULT_ALGO; FXP_UNKPT crossed with both families
    for coord in COORDS:
        for tw in ('BIN', 'JOINT', 'INTER'):
            # TWIN_ALGO_BIN is two binary multiplications and one addition: the full (k1,k2,Q) space for it in
            # the affine and one projective build only
            full = (tw != 'BIN' or coord in ('aff', 'jacMR'))
            c.append(mk('twin', coord, 8, twin=tw, targets=T_TWIN, real=(1 << 2), cost=(100 if full else 10),
                        extra=([] if full else NOFULL)))
    for coord in ('aff', 'jacMR'):
        for tw in ('BIN', 'JOINT', 'INTER'):
            c.append(mk('twin', coord, 64, twin=tw, targets=T_TWIN, real=(REAL_REPR_AFF if coord == 'aff' else REAL_ALL),
                        cost=30, extra=NOFULL))
    fam_f = [('BIN', None), ('PRE', None), ('SW', 4), ('C1', 3), ('C2', 4)]
    fam_u = [('BIN', None), ('PRE', None), ('SW', 2), ('C1', 2), ('C2', 3)]
    for coord in ('aff', 'jac', 'jacMR'):     # the glue has an affine and a projective version; mix/rd only change the callees
        for f in fam_f:
            for u in fam_u:
                if f[0] == 'BIN' and u[0] == 'BIN':
                    continue        # the header folds this one into TWIN_ALGO_BIN
                full = (f[0] == 'C2' and u[0] == 'C1' and coord != 'jac')  # nearest to the defaults: the full space
                c.append(mk('twinfu', coord, 8, fxp=f, unk=u, twin='FU', targets=T_TWIN, real=(1 << 2),
                            tiny=(TINY_ALL if full else TINY_CROSS), cost=(100 if full else 8), extra=([] if full else NOFULL)))
    for coord in ('aff', 'jacMR'):
        c.append(mk('twinfu', coord, 64, fxp=('C2', 9), unk=('C1', 2), twin='FU', targets=T_TWIN,
                    real=(REAL_REPR_AFF if coord == 'aff' else REAL_REPR), cost=30, extra=NOFULL))
    return c + probe_configs('probe')


CFLAGS_COMMON = ['-fsanitize=address', '-fsanitize-recover=address', '-fno-omit-frame-pointer',
                 # ASan's fake stack (stack-use-after-return) costs 3x in this code (dozens of 272-byte
                 # bn_t locals per call) and the property is about values; every other ASan check stays on
                 '--param=asan-use-after-return=0']


def merge(rep, sub, cfgname, lock):
    with lock:
        run = cases = fails = 0
        for t, d in sub.stats.items():
            dd = rep.stats.setdefault(t, {})
            for k, v in d.items():
                if isinstance(k, tuple):        # ('cases', config): fold into one number per target
                    dd['cases'] = dd.get('cases', 0) + v
                    cases += v
                else:
                    dd[k] = dd.get(k, 0) + v
                    if k == 'run':
                        run += v
                    if k == 'fails':
                        fails += v
        for k, v in sub.clauses.items():
            rep.clauses[k] = rep.clauses.get(k, 0) + v
        for k, l in sub.viol.items():
            dst = rep.viol.setdefault(k, [])
            for x in l:
                if len(dst) < 8:
                    dst.append(x)
        for s in sub.samples:
            if sum(1 for x in rep.samples if x.get('target') == s.get('target')) < 2 and len(rep.samples) < 40:
                rep.samples.append(s)
        rep.notes.extend('%s: %s' % (cfgname, n) for n in sub.notes)
        rep.harness_errors.extend(sub.harness_errors)
        if not sub.exhaustive:
            rep.exhaustive = False
        return cases, run, fails


def run(tier):
    rep = core.Report(PROP, tier, 'exploration',
        'per configuration of elliptic_curve.h (coordinates x mixed add x repeated doubling x FXP/UNKPT/TWIN algorithm x window '
        'bits x digit width): synthetic curves over p < 2^8 / 2^16 - every ordered pair (P,Q) of the whole group for add/sub, every '
        'P for doubling, every k in [0, max(n, 2^m-1)] for base-point and unknown-point multiplication, every (k1,k2,Q) on the two '
        'smallest groups for twin multiplication (alphabets elsewhere, see NOTES.md); the 32 built-in curves over an operand and '
        'scalar alphabet; one case = one call of the real function compared with the textbook affine law; non-trivial = the call '
        'succeeded, matched the reference and no operand was O / 0 / 1')
    rep.assumptions = [
        'reference for the synthetic curves: textbook affine law with native integers inside the harness, group recounted by brute force',
        'reference for the built-in curves: textbook affine law over Python integers on the parameters parsed from ecdsa.h as data',
        'bn_t operands are filled directly (count/digits/num) or with bn_import_be_hex like ecdsa_curve_from_str does; bignum correctness itself is C01',
        'ASan without the fake stack (no stack-use-after-return detection); every other ASan check on',
    ]
    bdir = core.build_dir(PROP)
    configs = quick_configs() if tier == 'quick' else thorough_configs()
    mine = set(c['name'] for c in configs)
    for f in os.listdir(bdir):                 # binaries / progress files an interrupted earlier run of this tier left
        p = os.path.join(bdir, f)
        if os.path.isfile(p) and (f in mine or (f.startswith('progress.') and f[9:].rsplit('.', 1)[0] in mine)):
            try:
                os.unlink(p)
            except OSError:
                pass

    # ---- expected points of the built-in curves (check time, from the working tree under test)
    if HERE not in sys.path:
        sys.path.insert(0, HERE)        # importable by name: its worker processes unpickle gen_curve
    gen = importlib.import_module('gen_real_expected')
    table = os.path.join(bdir, 'real_expected.txt')
    t0 = time.time()
    curves, problems = gen.generate(core.REPO, table, cache_dir=os.path.join(bdir, 'cache'), workers=core.NCPU)
    rep.extra['builtin_curves_parsed'] = len(curves)
    rep.extra['reference_generation_s'] = round(time.time() - t0, 2)
    for name, pr in problems.items():
        rep.harness_errors.append('built-in curve %s fails the independent validation (%s): not exercised' % (name, '; '.join(pr)))
    if len(curves) > 32:
        rep.harness_errors.append('ec_curve_str[] has %d records: extend the 32-bit curve masks in run.py/h_c02.c' % len(curves))

    lock = threading.Lock()
    binaries = {}
    cfg_rows = []
    nshards = 2 if tier == 'quick' else 1

    def job(cfg):
        t1 = time.time()
        row = dict(name=cfg['name'], flags=' '.join(f for f in cfg['flags'] if not f.startswith('-DC02_REAL_TABLE')))
        try:
            b = core.compile_c(PROP, cfg['name'], ['harness/C02/h_c02.c'],
                               flags=CFLAGS_COMMON + cfg['flags'] + ['-DC02_REAL_TABLE="%s"' % table],
                               san='none', quiet=True)
        except core.BuildError as e:
            msg = ' | '.join(l.strip() for l in str(e).splitlines() if ('error' in l or 'undefined' in l))[:400] or str(e)[-300:]
            with lock:
                rep.notes.append('SKIPPED (does not compile) %s: %s' % (cfg['name'], msg))
                row.update(status='skipped: does not compile', message=msg)
                cfg_rows.append(row)
            return
        sub = core.Report(PROP, tier, 'exploration', '')
        core.run_sharded(sub, b, tier, nshards=nshards, config=cfg['name'])
        cases, runs, fails = merge(rep, sub, cfg['name'], lock)
        with lock:
            row.update(status='run', cases=cases, run=runs, failed_cases=fails, wall_s=round(time.time() - t1, 1))
            cfg_rows.append(row)
            binaries[cfg['name']] = b
        if not sub.viol:
            try:
                os.unlink(b)
            except OSError:
                pass
        for f in os.listdir(bdir):
            if f.startswith('progress.%s.' % cfg['name']):
                try:
                    os.unlink(os.path.join(bdir, f))
                except OSError:
                    pass

    order = sorted(configs, key=lambda c: -c['cost'])      # expensive ones first
    with ThreadPoolExecutor(max_workers=(core.NCPU if tier == 'thorough' else len(order))) as ex:
        list(ex.map(job, order))

    cfg_rows.sort(key=lambda r: r['name'])
    rep.configs = cfg_rows
    rep.extra['configurations_total'] = len(configs)
    rep.extra['configurations_run'] = sum(1 for r in cfg_rows if r.get('status') == 'run')
    rep.extra['configurations_skipped_no_compile'] = sum(1 for r in cfg_rows if r.get('status', '').startswith('skipped'))
    if rep.extra['configurations_run'] == 0:
        rep.harness_errors.append('no configuration compiled')
    rep.notes.sort()
    rep.finish(core.make_replayer(lambda cfg: binaries[cfg], tier))
