#!/usr/bin/env python3
"""Authoring-time generator of harness/C02/tiny_curves.h (NOT run by the check).

Searches small primes for curves y^2 = x^3 + a*x + b with the wanted shapes, computes the
group order by brute force, picks a base point G of prime order n (h = #E / n) and prints the
table.  The harness does not trust this file: it recounts #E and re-derives ord(G) with native
integers at check time (clause table-self-check).

usage: python3 gen_tiny_curves.py > tiny_curves.h
"""
import sys

def is_prime(n):
    if n < 2: return False
    i = 2
    while i * i <= n:
        if n % i == 0: return False
        i += 1
    return True

def points(p, a, b):
    sq = {}
    for y in range(p):
        sq.setdefault(y * y % p, []).append(y)
    pts = []
    for x in range(p):
        for y in sq.get((x * x * x + a * x + b) % p, []):
            pts.append((x, y))
    return pts

def add(P, Q, p, a):
    if P is None: return Q
    if Q is None: return P
    (x1, y1), (x2, y2) = P, Q
    if x1 == x2:
        if (y1 + y2) % p == 0: return None
        l = (3 * x1 * x1 + a) * pow(2 * y1, -1, p) % p
    else:
        l = (y2 - y1) * pow(x2 - x1, -1, p) % p
    x3 = (l * l - x1 - x2) % p
    return (x3, (l * (x1 - x3) - y1) % p)

def mul(k, P, p, a):
    R = None
    while k:
        if k & 1: R = add(R, P, p, a)
        P = add(P, P, p, a)
        k >>= 1
    return R

def largest_prime_factor(n):
    f, i = 1, 2
    while i * i <= n:
        while n % i == 0:
            f, n = i, n // i
        i += 1
    return max(f, n) if n > 1 else f

def classify(p, a, b):
    if (4 * a ** 3 + 27 * b * b) % p == 0: return None
    pts = points(p, a, b)
    N = len(pts) + 1
    n = largest_prime_factor(N)
    h = N // n
    roots = sum(1 for (x, y) in pts if y == 0)
    return N, n, h, roots, pts

def pick_G(p, a, pts, n, h):
    for P in pts:                      # first point (x ascending) of exact order n
        Q = mul(h, P, p, a)
        if Q is not None and mul(n, Q, p, a) is None and h == 1 and P == Q:
            return P
        if h > 1 and Q is not None:
            return Q                   # h*P has order n (n prime, Q != O)
    return None

def search(primes, want):
    """want(p,a,b,N,n,h,roots) -> bool; a iterates over the generator given by want.a_of(p)"""
    for p in primes:
        for a in want['a'](p):
            for b in range(1, p):
                c = classify(p, a, b)
                if c is None: continue
                N, n, h, roots, pts = c
                if not want['ok'](p, a, b, N, n, h, roots): continue
                G = pick_G(p, a, pts, n, h)
                if G is None: continue
                return dict(p=p, a=a, b=b, gx=G[0], gy=G[1], n=n, h=h, roots=roots, N=N)
    return None

def primes_in(lo, hi, mod, res, reverse=False):
    r = [q for q in range(lo, hi) if is_prime(q) and q % mod == res]
    return r[::-1] if reverse else r

SPECS = [
 # name, m, prime list, a-generator, predicate, flag, comment
 ('t8_m3_h1_p3m4',   8, primes_in(128, 256, 4, 3, True),  lambda p: [p - 3], lambda p,a,b,N,n,h,r: h == 1 and n < 256, 1, 'a=p-3 with A_M3, prime order < 2^8, p = 3 mod 4'),
 ('t8_m3_h1_p1m8_big',8, primes_in(128, 256, 8, 1, True),  lambda p: [p - 3], lambda p,a,b,N,n,h,r: h == 1 and n > 256, 1, 'a=p-3 with A_M3, prime order > 2^8 (n needs m+1 bits, like secp160r1), p = 1 mod 8'),
 ('t8_gen_h1_p5m8',  8, primes_in(128, 256, 8, 5, True),  lambda p: [5, 7, 11], lambda p,a,b,N,n,h,r: h == 1 and n < 256, 0, 'generic a, prime order, p = 5 mod 8'),
 ('t8_a0_h1',        8, primes_in(128, 256, 3, 1, True),  lambda p: [0],     lambda p,a,b,N,n,h,r: h == 1 and n < 256, 0, 'a=0 (secp256k1 shape), prime order'),
 ('t8_gen_h2',       8, primes_in(128, 256, 4, 3, True),  lambda p: [2, 3, 6], lambda p,a,b,N,n,h,r: h == 2 and r == 1, 0, 'generic a, cofactor 2: one point with y=0'),
 ('t8_gen_h4_cyc',   8, primes_in(128, 256, 8, 1, True),  lambda p: [2, 3, 6, 10], lambda p,a,b,N,n,h,r: h == 4 and r == 1, 0, 'generic a, cofactor 4, cyclic 2-part (points of order 4, one y=0 point)'),
 ('t8_m3_h4_v4',     8, primes_in(128, 256, 8, 5, True),  lambda p: [p - 3], lambda p,a,b,N,n,h,r: h == 4 and r == 3, 1, 'a=p-3 with A_M3, cofactor 4, full 2-torsion (three y=0 points)'),
 ('t8_m3noflag_h1',  8, primes_in(128, 200, 4, 3, True),  lambda p: [p - 3], lambda p,a,b,N,n,h,r: h == 1 and n < 256, 0, 'a=p-3 WITHOUT the A_M3 flag (generic path must agree), p = 3 mod 4'),
 ('t16_m3_h1_p3m4', 16, primes_in(32768, 65536, 4, 3, True), lambda p: [p - 3], lambda p,a,b,N,n,h,r: h == 1 and n < 65536, 1, 'a=p-3 with A_M3, prime order < 2^16, p = 3 mod 4'),
 ('t16_gen_h4_p1m8',16, primes_in(32768, 65536, 8, 1, True), lambda p: [2, 3, 5], lambda p,a,b,N,n,h,r: h == 4 and r == 3, 0, 'generic a, cofactor 4 with full 2-torsion, p = 1 mod 8'),
 ('t16_a0_h1_p5m8', 16, [q for q in primes_in(32768, 65536, 8, 5, True) if q % 3 == 1], lambda p: [0], lambda p,a,b,N,n,h,r: h == 1 and n > 65536, 0, 'a=0, prime order > 2^16 (n needs 17 bits), p = 5 mod 8'),
 ('t16_gen_h2_small',16, primes_in(32768, 40000, 4, 3, False), lambda p: [7, 9], lambda p,a,b,N,n,h,r: h == 2 and r == 1, 0, 'generic a, cofactor 2, p just above 2^15'),
]

def main():
    out = []
    for name, m, primes, agen, ok, flag, why in SPECS:
        c = search(primes, dict(a=agen, ok=ok))
        if c is None:
            sys.stderr.write('no curve for %s\n' % name)
            sys.exit(1)
        sys.stderr.write('%s: %r\n' % (name, c))
        out.append((name, m, flag, why, c))
    print(HEAD)
    for name, m, flag, why, c in out:
        print('\t{ "%s", %d, %d, %d, %d, %d, %d, %d, %d, %d, %d,\n\t  "%s" },' % (
            name, m, c['p'], c['a'], c['b'], c['gx'], c['gy'], c['n'], c['h'], flag, c['roots'], why))
    print(TAIL)

HEAD = r"""/* GENERATED by harness/C02/gen_tiny_curves.py at authoring time - do not edit by hand.
 *
 * Small prime-field curves y^2 = x^3 + a*x + b over GF(p) whose whole group can be enumerated.
 * m = bit length of p (the value for ec_curve_t.m): with BN_DIGIT_BIT_CNT == m (or m a multiple
 * of the digit width) liblcb's comb / window code is really executed instead of the
 * "dont know how to mult" binary fallback.
 * n = prime order of the base point G, h = cofactor, #E(GF(p)) = n * h, y0 = number of points
 * with y == 0 (order 2).  am3 = 1: the row is meant to be loaded with EC_CURVE_FLAG_A_M3
 * (only rows with a == p - 3).
 * Users must not trust the rows blindly: harness/C02/h_c02.c recounts #E and ord(G) by brute
 * force at check time.
 *
 * With <crypto/dsa/ecdsa.h> included first, c02_tiny_curve_to_str() fills an ec_curve_str_t that
 * ecdsa_curve_from_str() accepts (t = m/2, algo = ECDSA).
 */
#ifndef C02_TINY_CURVES_H
#define C02_TINY_CURVES_H

#include <stdint.h>
#include <stdio.h>
#include <string.h>

typedef struct c02_tiny_curve_s {
	const char *name;
	uint32_t m;		/* bit length of p: 8 or 16 */
	uint32_t p, a, b, gx, gy;
	uint32_t n;		/* prime order of G */
	uint32_t h;		/* cofactor */
	uint32_t am3;		/* load with EC_CURVE_FLAG_A_M3 */
	uint32_t y0;		/* points with y == 0 */
	const char *why;
} c02_tiny_curve_t;

static const c02_tiny_curve_t c02_tiny_curves[] = {"""

TAIL = r"""};
#define C02_TINY_CURVES_CNT (sizeof(c02_tiny_curves) / sizeof(c02_tiny_curves[0]))

#ifdef __ECDSA_H__
typedef struct c02_tiny_curve_str_s {
	ec_curve_str_t str;
	char p[16], a[16], b[16], gx[16], gy[16], n[16];
} c02_tiny_curve_str_t;

/* Hex strings always have an even number of digits (bn_import_be_hex drops an odd leading
 * nibble); n gets two more digits when it does not fit m bits, exactly like secp160r1. */
static inline void
c02_tiny_curve_to_str(const c02_tiny_curve_t *t, c02_tiny_curve_str_t *o) {
	int w = (int)(t->m / 4);

	memset(o, 0x00, sizeof(*o));
	snprintf(o->p, sizeof(o->p), "%0*x", w, t->p);
	snprintf(o->a, sizeof(o->a), "%0*x", w, t->a);
	snprintf(o->b, sizeof(o->b), "%0*x", w, t->b);
	snprintf(o->gx, sizeof(o->gx), "%0*x", w, t->gx);
	snprintf(o->gy, sizeof(o->gy), "%0*x", w, t->gy);
	snprintf(o->n, sizeof(o->n), "%0*x", ((t->n >> t->m) != 0) ? (w + 2) : w, t->n);
	o->str.name = t->name;
	o->str.name_size = strlen(t->name);
	o->str.OID = "";
	o->str.OID_size = 0;
	o->str.num_size = (size_t)w;
	o->str.t = (t->m / 2);
	o->str.m = t->m;
	o->str.p = o->p;
	o->str.SEED = "";
	o->str.SEED_size = 0;
	o->str.a = o->a;
	o->str.b = o->b;
	o->str.Gx = o->gx;
	o->str.Gy = o->gy;
	o->str.n = o->n;
	o->str.h = t->h;
	o->str.algo = EC_CURVE_ALGO_ECDSA;
	o->str.flags = (0 != t->am3) ? EC_CURVE_FLAG_A_M3 : 0;
}
#endif /* __ECDSA_H__ */

#endif /* C02_TINY_CURVES_H */"""

if __name__ == '__main__':
    main()
