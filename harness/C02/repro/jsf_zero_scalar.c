/* F3 - bn_calc_jsf() reads an uninitialised digit when one of the two scalars is zero, so the
 * joint-sparse-form twin multiplication (EC_PF_TWIN_MULT_ALGO_JOINT, the header's DEFAULT) returns a
 * point that depends on stack garbage for k1 == 0 or k2 == 0 - and for some garbage never terminates
 * and writes through the stack.
 *
 *   gcc -O1 -w -I/repo/include /verif/harness/C02/repro/jsf_zero_scalar.c -o /tmp/jsf_zero && /tmp/jsf_zero
 *   (add -fsanitize=address to see "stack-buffer-overflow ... 'jsf'" in the second part; without ASan the
 *    second part is run in a child process because it usually dies with SIGSEGV; with another -O level the
 *    garbage, and therefore which of the symptoms appears first, is different)
 *
 * big_num.h: bn_assign_init(&tmA, a) copies a->digits (= 0) digits, then
 *            l0 = (((int8_t)tmA.num[0] + d0) & 0x7) uses tmA.num[0].
 * The stack below the call is filled with a chosen byte to make the garbage visible and repeatable;
 * with fresh zero pages the bug is hidden.
 */
#include <sys/param.h>
#include <sys/types.h>
#include <sys/wait.h>
#include <inttypes.h>
#include <stdio.h>
#include <stdlib.h>
#include <string.h>
#include <unistd.h>
#include <errno.h>

#define EC_USE_PROJECTIVE	1
#define EC_PF_TWIN_MULT_ALGO	2	/* EC_PF_TWIN_MULT_ALGO_JOINT (also the default) */
#define EC_PF_FXP_MULT_ALGO	0
#define EC_PF_UNKPT_MULT_ALGO	0
#include "crypto/dsa/ecdsa.h"

static ec_curve_t curve;

static void __attribute__((noinline))
fill_stack(int byte) {
	volatile char pad[64 * 1024];
	memset((void *)pad, byte, sizeof(pad));
	__asm__ volatile("" : : "r"(pad) : "memory");
}

static int __attribute__((noinline))
twin(bn_p k1, ec_point_p Q, bn_p k2, ec_point_p R) {
	return (ec_point_twin_mult_bp(k1, Q, k2, &curve, R));
}

static int
try_fill(int byte) {	/* 0*G + 1*G must be G */
	ec_point_t Q, R;
	bn_t k1, k2;
	int rc;

	bn_init(&k1, EC_CURVE_CALC_BITS_DBL(&curve));	/* k1 = 0: digits == 0, num[] untouched */
	bn_init(&k2, EC_CURVE_CALC_BITS_DBL(&curve));
	bn_assign_digit(&k2, 1);
	ec_point_init(&Q, curve.m);
	ec_point_assign(&Q, &curve.G);
	ec_point_init(&R, curve.m);
	fill_stack(byte);
	rc = twin(&k1, &Q, &k2, &R);
	printf("stack filled with 0x%02x: rc=%d, 0*G + 1*G %s G\n", byte, rc,
	    (0 != ec_point_is_eq(&R, &curve.G)) ? "==" : "!=");
	return (0 == ec_point_is_eq(&R, &curve.G));
}

int
main(void) {
	int bad = 0, st = 0;
	pid_t pid;

	setvbuf(stdout, NULL, _IONBF, 0);
	if (0 != ecdsa_curve_from_str(ecdsa_curve_str_get_by_name("secp256r1", 9), &curve))
		return (2);
	bad |= try_fill(0x00);	/* lucky garbage: correct */
	bad |= try_fill(0xf1);	/* garbage = 1 (mod 8): wrong point */
	fflush(stdout);
	pid = fork();		/* garbage = 5 (mod 8), other scalar = 2 (mod 4): carry never clears, jsf[] overrun */
	if (0 == pid) {
		ec_point_t Q, R;
		bn_t k1, k2;
		bn_init(&k1, EC_CURVE_CALC_BITS_DBL(&curve));
		bn_init(&k2, EC_CURVE_CALC_BITS_DBL(&curve));
		bn_assign_digit(&k2, 2);
		ec_point_init(&Q, curve.m);
		ec_point_assign(&Q, &curve.G);
		ec_point_init(&R, curve.m);
		alarm(20);
		fill_stack(0xa5);
		twin(&k1, &Q, &k2, &R);
		_exit(0);
	}
	waitpid(pid, &st, 0);
	if (WIFSIGNALED(st)) {
		printf("stack filled with 0xa5, 0*G + 2*G: child killed by signal %d (SIGSEGV = 11, SIGALRM = 14)\n", WTERMSIG(st));
		bad = 1;
	} else {
		printf("stack filled with 0xa5, 0*G + 2*G: child exit status %d\n", WEXITSTATUS(st));
		bad |= (0 != WEXITSTATUS(st));
	}
	printf(bad ? "DEFECT: result of the twin multiplication depends on uninitialised memory\n" : "ok\n");
	return (bad);
}
