/* F2 - EC_PF_*_MULT_ALGO_BIN_PRECALC_DBL builds curve->m doubled points but indexes the table with
 * every bit of the scalar.  The order n of secp160k1 / secp160r1 / secp160r2 / secp224k1 has m+1 bits,
 * so the valid scalars n-1 (= -1 mod n) and n select table entry [m], which was never computed:
 * wrong point from ec_point_mult_bp(), EOVERFLOW or a wrong point from ec_point_unknown_pt_mult().
 *
 *   gcc -O1 -w -I/repo/include /verif/harness/C02/repro/pre_dbl_wide_scalar.c -o /tmp/pre_dbl_wide && /tmp/pre_dbl_wide
 *
 * Expected: (n-1)*G == -G and n*G == O.  Observed: neither.
 * (Jacobian coordinates, so that F1 - the affine precompute bug - does not interfere.)
 */
#include <sys/param.h>
#include <sys/types.h>
#include <inttypes.h>
#include <stdio.h>
#include <stdlib.h>
#include <string.h>
#include <errno.h>

#define EC_USE_PROJECTIVE	1
#define EC_PROJ_ADD_MIX		1
#define EC_PF_FXP_MULT_ALGO	1	/* EC_PF_FXP_MULT_ALGO_BIN_PRECALC_DBL */
#define EC_PF_UNKPT_MULT_ALGO	0
#define EC_PF_TWIN_MULT_ALGO	0
#include "crypto/dsa/ecdsa.h"

int
main(void) {
	static ec_curve_t curve;
	ec_point_t R, negG;
	bn_t k;
	int rc, bad = 0;

	rc = ecdsa_curve_from_str(ecdsa_curve_str_get_by_name("secp160r1", 9), &curve);
	printf("curve secp160r1: m=%zu, n has %zu bits, setup rc=%d\n", curve.m, bn_calc_bits(&curve.n), rc);
	if (0 != rc)
		return (2);
	/* -G */
	ec_point_init(&negG, EC_CURVE_CALC_BITS_DBL(&curve));
	ec_point_assign(&negG, &curve.G);
	bn_assign(&negG.y, &curve.p);
	bn_sub(&negG.y, &curve.G.y, NULL);

	bn_init(&k, EC_CURVE_CALC_BITS_DBL(&curve));
	bn_assign(&k, &curve.n);
	bn_sub_digit(&k, 1, NULL);			/* k = n - 1 */
	ec_point_init(&R, curve.m);
	rc = ec_point_mult_bp(&k, &curve, &R);
	printf("(n-1)*G: rc=%d, %s -G, ec_point_check_affine=%d\n", rc,
	    (0 != ec_point_is_eq(&R, &negG)) ? "==" : "!=", ec_point_check_affine(&R, &curve));
	bad |= (0 != rc || 0 == ec_point_is_eq(&R, &negG));

	ec_point_init(&R, curve.m);
	rc = ec_point_mult_bp(&curve.n, &curve, &R);	/* k = n */
	printf("n*G: rc=%d, infinity=%d (must be 1)\n", rc, R.infinity);
	bad |= (0 != rc || 0 == R.infinity);

	printf(bad ? "DEFECT: scalars with more than m bits use table entries that were never built\n" : "ok\n");
	return (bad);
}
