/* F4 - the table types of the unknown-point algorithms (sliding window, comb 1t/2t) are dimensioned
 * with EC_PF_FXP_MULT_WIN_BITS (EC_PF_FXP_MULT_NUM_POINTS), but ec_point_unknown_pt_mult() fills them for
 * EC_PF_UNKPT_MULT_WIN_BITS.  A build whose unknown-point window is wider than its fixed-point window
 * overruns the on-stack table in every call.
 *
 *   gcc -O1 -w -fsanitize=address -I/repo/include /verif/harness/C02/repro/unkpt_window_overflow.c -o /tmp/unk_ovf && /tmp/unk_ovf
 *
 * Observed: AddressSanitizer: stack-buffer-overflow ... 'mult_data' (elliptic_curve.h, ec_point_unknown_pt_mult).
 * Without ASan the neighbouring stack is overwritten silently (the program may print a wrong point or crash).
 */
#include <sys/param.h>
#include <sys/types.h>
#include <inttypes.h>
#include <stdio.h>
#include <stdlib.h>
#include <string.h>
#include <errno.h>

#define EC_PF_FXP_MULT_ALGO		3	/* COMB_1T */
#define EC_PF_FXP_MULT_WIN_BITS		2	/* 3 table entries */
#define EC_PF_UNKPT_MULT_ALGO		3	/* COMB_1T */
#define EC_PF_UNKPT_MULT_WIN_BITS	4	/* needs 15 */
#define EC_PF_TWIN_MULT_ALGO		0
#include "crypto/dsa/ecdsa.h"

int
main(void) {
	static ec_curve_t curve;
	ec_point_t P, twoG;
	bn_t k;
	int rc;

	if (0 != ecdsa_curve_from_str(ecdsa_curve_str_get_by_name("secp256r1", 9), &curve))
		return (2);
	printf("sizeof(on-stack table) = %zu bytes = room for %zu points, the precompute writes %d\n",
	    sizeof(ec_pt_unkpt_mult_data_t), (size_t)EC_PF_FXP_MULT_NUM_POINTS, (1 << EC_PF_UNKPT_MULT_WIN_BITS) - 1);
	fflush(stdout);
	ec_point_init(&twoG, EC_CURVE_CALC_BITS_DBL(&curve));
	ec_point_assign(&twoG, &curve.G);
	ec_point_add(&twoG, &twoG, &curve);
	bn_init(&k, EC_CURVE_CALC_BITS_DBL(&curve));
	bn_assign_digit(&k, 2);
	ec_point_init(&P, curve.m);
	ec_point_assign(&P, &curve.G);
	rc = ec_point_unknown_pt_mult(&P, &k, &curve);
	printf("2*G: rc=%d, %s G+G\n", rc, (0 != ec_point_is_eq(&P, &twoG)) ? "==" : "!=");
	return (0);
}
