/* DESIGN.md #22 - affine coordinates + EC_PF_FXP_MULT_ALGO_BIN_PRECALC_DBL: the table of doubles
 * is built wrongly, ec_point_mult_bp() silently returns points that are not on the curve.
 *
 *   gcc -O1 -w -I/repo/include /verif/harness/C02/repro/affine_pre_dbl.c -o /tmp/affine_pre_dbl && /tmp/affine_pre_dbl
 *
 * (affine is the default when EC_USE_PROJECTIVE is not defined)
 * Expected on a correct library: "2*G agrees" and exit 0.  Observed: 2*G = (0,0), exit 1.
 */
#include <sys/param.h>
#include <sys/types.h>
#include <inttypes.h>
#include <stdio.h>
#include <stdlib.h>
#include <string.h>
#include <errno.h>

#define EC_PF_FXP_MULT_ALGO	1	/* EC_PF_FXP_MULT_ALGO_BIN_PRECALC_DBL */
#define EC_PF_UNKPT_MULT_ALGO	0	/* EC_PF_UNKPT_MULT_ALGO_BIN */
#define EC_PF_TWIN_MULT_ALGO	0	/* EC_PF_TWIN_MULT_ALGO_BIN */
#include "crypto/dsa/ecdsa.h"

static void
show(const char *what, ec_point_p P) {
	uint8_t x[300], y[300];
	size_t xl = 0, yl = 0;

	if (0 != P->infinity) {
		printf("%s = O\n", what);
		return;
	}
	bn_export_be_hex(&P->x, BN_EXPORT_F_AUTO_SIZE, x, sizeof(x) - 1, &xl);
	bn_export_be_hex(&P->y, BN_EXPORT_F_AUTO_SIZE, y, sizeof(y) - 1, &yl);
	x[xl] = 0; y[yl] = 0;
	printf("%s = (%s,\n     %*s %s)\n", what, (0 == xl) ? "0" : (char *)x, (int)strlen(what), "", (0 == yl) ? "0" : (char *)y);
}

int
main(void) {
	static ec_curve_t curve;
	ec_point_t viaTable, viaAdd;
	bn_t two;
	int rc, bad = 0;

	rc = ecdsa_curve_from_str(ecdsa_curve_str_get_by_name("secp256r1", 9), &curve);
	printf("ecdsa_curve_from_str(secp256r1) = %d\n", rc);
	if (0 != rc)
		return (1);
	bn_init(&two, EC_CURVE_CALC_BITS_DBL(&curve));
	bn_assign_digit(&two, 2);

	ec_point_init(&viaTable, curve.m);
	rc = ec_point_mult_bp(&two, &curve, &viaTable);		/* uses curve.G_fpx_mult_data */
	printf("ec_point_mult_bp(2) = %d\n", rc);
	show("2*G by ec_point_mult_bp", &viaTable);
	printf("ec_point_check_affine(2*G) = %d   (0 = on the curve)\n", ec_point_check_affine(&viaTable, &curve));

	ec_point_init(&viaAdd, EC_CURVE_CALC_BITS_DBL(&curve));
	ec_point_assign(&viaAdd, &curve.G);
	rc = ec_point_add(&viaAdd, &viaAdd, &curve);
	show("G+G by ec_point_add   ", &viaAdd);

	if (0 == ec_point_is_eq(&viaTable, &viaAdd)) {
		printf("DEFECT: 2*G from the precomputed table differs from G+G\n");
		bad = 1;
	} else {
		printf("2*G agrees\n");
	}
	return (bad);
}
