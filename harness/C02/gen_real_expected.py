#!/usr/bin/env python3
"""Check-time reference for the built-in curves of <crypto/dsa/ecdsa.h>.

Parses the ec_curve_str[] initialiser of the header *as data* (no C is executed), verifies every
curve with Python integers (p, n probable primes, discriminant, G on the curve, n*G == O,
A_M3 flag => a == p-3) and writes, for a fixed operand / scalar alphabet, the points that the
textbook affine group law gives.  The harness (h_c02.c) replays every line on the real code.

Only the textbook affine formulas are used (slope by modular inverse); no projective trick, no
code shared with liblcb.

Line format (fields separated by one blank, '-' is the point at infinity, all numbers hex):
  C <idx> <name> <m> <p> <a> <b> <n> <h> <flags> <am3_consistent>
  P <id> <x> <y>                 operand points of the curve, id >= 1 (id 0 is O)
  A <op> <idP> <idQ> <x> <y>     op a: P+Q, s: P-Q, d: P+P through one pointer (idQ ignored)
  U <idP> <k> <x> <y>            ec_point_unknown_pt_mult(P, k)
  B <k> <x> <y>                  ec_point_mult_bp(k)
  T <k1> <idQ> <k2> <x> <y>      ec_point_twin_mult_bp(k1, Q, k2) = k1*G + k2*Q
  W <idA> <k1> <idQ> <k2> <x> <y> ec_point_twin_mult(A, k1, Q, k2)
"""
import os, re, sys, hashlib
from concurrent.futures import ProcessPoolExecutor

GEN_VERSION = '3'


def parse_curves(header_path):
    s = open(header_path).read()
    i = s.index('static ec_curve_str_t ec_curve_str[] = {')
    j = s.index('\n};', i)
    body = s[i:j]
    rx = re.compile(
        r'/\*\.name =\*/\s*"([^"]+)".*?/\*\.num_size =\*/\s*(\d+).*?/\*\.t =\*/\s*(\d+).*?'
        r'/\*\.m =\*/\s*(\d+).*?/\*\.p =\*/\s*"([0-9a-fA-F]+)".*?/\*\.a =\*/\s*"([0-9a-fA-F]+)".*?'
        r'/\*\.b =\*/\s*"([0-9a-fA-F]+)".*?/\*\.Gx =\*/\s*"([0-9a-fA-F]+)".*?/\*\.Gy =\*/\s*"([0-9a-fA-F]+)".*?'
        r'/\*\.n =\*/\s*"([0-9a-fA-F]+)".*?/\*\.h =\*/\s*(\d+).*?/\*\.algo =\*/\s*(\w+).*?'
        r'/\*\.flags =\*/\s*([\w|\s]+?),', re.S)
    out = []
    for k, e in enumerate(rx.findall(body)):
        out.append(dict(idx=k, name=e[0], num_size=int(e[1]), t=int(e[2]), m=int(e[3]),
                        p=int(e[4], 16), a=int(e[5], 16), b=int(e[6], 16), gx=int(e[7], 16), gy=int(e[8], 16),
                        n=int(e[9], 16), h=int(e[10]), algo=e[11],
                        flags=1 if 'EC_CURVE_FLAG_A_M3' in e[12] else 0))
    # every '{ /*.name =*/' opener of the initialiser must have been understood
    if len(out) != body.count('/*.name =*/'):
        raise SystemExit('gen_real_expected: parsed %d of %d curve records' % (len(out), body.count('/*.name =*/')))
    return out


def is_probable_prime(n):
    if n < 2:
        return False
    for q in (2, 3, 5, 7, 11, 13, 17, 19, 23, 29, 31, 37):
        if n % q == 0:
            return n == q
    d, r = n - 1, 0
    while d % 2 == 0:
        d //= 2
        r += 1
    for a in (2, 3, 5, 7, 11, 13, 17, 19, 23, 29, 31, 37):  # deterministic bases, fine as a sanity check
        x = pow(a, d, n)
        if x in (1, n - 1):
            continue
        for _ in range(r - 1):
            x = x * x % n
            if x == n - 1:
                break
        else:
            return False
    return True


class Curve:
    def __init__(self, c):
        self.__dict__.update(c)
        self.G = (self.gx, self.gy)

    def on(self, P):
        if P is None:
            return True
        x, y = P
        return 0 <= x < self.p and 0 <= y < self.p and (y * y - (x * x * x + self.a * x + self.b)) % self.p == 0

    def neg(self, P):
        return None if P is None else (P[0], (-P[1]) % self.p)

    def add(self, P, Q):           # textbook affine law
        p = self.p
        if P is None:
            return Q
        if Q is None:
            return P
        x1, y1 = P
        x2, y2 = Q
        if x1 == x2:
            if (y1 + y2) % p == 0:
                return None
            l = (3 * x1 * x1 + self.a) * pow(2 * y1, -1, p) % p
        else:
            l = (y2 - y1) * pow(x2 - x1, -1, p) % p
        x3 = (l * l - x1 - x2) % p
        return (x3, (l * (x1 - x3) - y1) % p)

    def mul(self, k, P):           # right-to-left double and add, any point
        R = None
        while k:
            if k & 1:
                R = self.add(R, P)
            P = self.add(P, P)
            k >>= 1
        return R


def sqrt_mod(a, p):                # Tonelli-Shanks
    a %= p
    if a == 0:
        return 0
    if pow(a, (p - 1) // 2, p) != 1:
        return None
    if p % 4 == 3:
        return pow(a, (p + 1) // 4, p)
    q, s = p - 1, 0
    while q % 2 == 0:
        q //= 2
        s += 1
    z = 2
    while pow(z, (p - 1) // 2, p) != p - 1:
        z += 1
    m, c, t, r = s, pow(z, q, p), pow(a, q, p), pow(a, (q + 1) // 2, p)
    while t != 1:
        i, t2 = 0, t
        while t2 != 1:
            t2 = t2 * t2 % p
            i += 1
        b = pow(c, 1 << (m - i - 1), p)
        m, c, t, r = i, b * b % p, t * b * b % p, r * b % p
    return r


def exp_set(m):
    I = set(range(0, 10))
    for base in (16, 32, 64, 128, 192, 256, 320, 384, 448, 512):
        I.update((base - 1, base, base + 1))
    I.update((m - 2, m - 1))
    return sorted(i for i in I if 0 <= i <= m - 1)


def pattern(byte, m):
    v = int(('%02x' % byte) * ((m + 7) // 8), 16)
    return v & ((1 << m) - 1)


def hx(v):
    s = '%x' % v
    return s if len(s) % 2 == 0 else '0' + s


def pt(P):
    return '- -' if P is None else '%s %s' % (hx(P[0]), hx(P[1]))


def gen_curve(c):
    E = Curve(c)
    p, n, m, G = E.p, E.n, E.m, E.G
    problems = []
    if not is_probable_prime(p):
        problems.append('p is not prime')
    if not is_probable_prime(n):
        problems.append('n is not prime')
    if (4 * E.a ** 3 + 27 * E.b ** 2) % p == 0:
        problems.append('singular curve')
    if not E.on(G):
        problems.append('G is not on the curve')
    if p.bit_length() > m:
        problems.append('p longer than m bits')
    # 2^i * G by m successive doublings; every k*G below is a sum of these (popcount additions)
    D = [G]
    for i in range(1, max(m, n.bit_length()) + 2):
        D.append(E.add(D[-1], D[-1]))
    memo = {}

    def mulG_raw(k):
        R, i = None, 0
        while k:
            if k & 1:
                R = E.add(R, D[i])
            k >>= 1
            i += 1
        return R

    if mulG_raw(n) is not None:
        problems.append('n*G is not the point at infinity')
    if problems:
        return c['idx'], None, problems

    def mulG(k):
        k %= n
        if k not in memo:
            memo[k] = mulG_raw(k)
        return memo[k]

    am3_ok = 1 if (not E.flags or E.a == p - 3) else 0
    L = ['C %d %s %d %s %s %s %s %d %d %d' % (E.idx, E.name, m, hx(p), hx(E.a), hx(E.b), hx(n), E.h, E.flags, am3_ok)]
    # ---- operand points
    ops = {}            # id -> (point, coefficient c with P = c*G or None, odd-order-2 point or None)
    names = [('G', 1), ('-G', -1), ('2G', 2), ('-2G', -2), ('3G', 3)]
    pid = 1
    for _, cf in names:
        ops[pid] = (mulG(cf), cf)
        pid += 1
    Z = None
    if E.h % 2 == 0:    # a point of order two: (n*h/2) * R for the first liftable x
        x = 1
        while Z is None and x < 200:
            y = sqrt_mod(x * x * x + E.a * x + E.b, p)
            if y is not None:
                T = E.mul(n * (E.h // 2), (x, y))
                if T is not None and T[1] == 0 and E.on(T):
                    Z = T
            x += 1
    if Z is not None:
        ops[pid] = (Z, None)
        zid = pid
        pid += 1
    for i in sorted(ops):
        if not E.on(ops[i][0]):
            return c['idx'], None, ['internal: operand off curve']
        L.append('P %d %s' % (i, pt(ops[i][0])))
    ids = [0] + sorted(ops)
    P_of = lambda i: None if i == 0 else ops[i][0]

    def kP(k, i):                  # expected k * operand(i)
        if i == 0:
            return None
        P, cf = ops[i]
        if cf is None:             # order two
            return P if (k & 1) else None
        return mulG(k * cf)

    # ---- add / sub / double: all ordered pairs of the operand alphabet
    for i in ids:
        for j in ids:
            L.append('A a %d %d %s' % (i, j, pt(E.add(P_of(i), P_of(j)))))
            L.append('A s %d %d %s' % (i, j, pt(E.add(P_of(i), E.neg(P_of(j))))))
        L.append('A d %d 0 %s' % (i, pt(E.add(P_of(i), P_of(i)))))
    # ---- scalars
    K = {0, 1, 2, 3, n - 2, n - 1, n, (n + 1) // 2, pattern(0xAA, m), pattern(0x55, m)}
    if (n + 1).bit_length() <= max(m, n.bit_length()):
        K.add(n + 1)
    for i in exp_set(m):
        K.add(1 << i)
        K.add((1 << i) - 1)
    K.add((1 << m) - 1)
    K = sorted(K)
    for k in K:
        L.append('B %s %s' % (hx(k), pt(mulG(k))))
    upts = [0, 1, 2, 3] + ([zid] if Z is not None else [])
    for i in upts:
        for k in K:
            L.append('U %d %s %s' % (i, hx(k), pt(kP(k, i))))
    # ---- twin
    K2 = sorted({0, 1, 2, n - 1, n, (1 << m) - 1, pattern(0xAA, m), pattern(0x55, m)})
    for q in upts:
        for k1 in K2:
            for k2 in K2:
                L.append('T %s %d %s %s' % (hx(k1), q, hx(k2), pt(E.add(mulG(k1), kP(k2, q)))))
    K3 = sorted({0, 1, 3, n - 1, pattern(0xAA, m)})
    for a_ in (2, 3):
        for q in upts:
            for k1 in K3:
                for k2 in K3:
                    L.append('W %d %s %d %s %s' % (a_, hx(k1), q, hx(k2), pt(E.add(kP(k1, a_), kP(k2, q)))))
    return c['idx'], L, []


def generate(repo, out_path, cache_dir=None, workers=8):
    """Returns (curves, problems): parsed curve list and {name: [problem...]} for curves that fail the
    Python validation (those get no lines; the caller reports them)."""
    curves = parse_curves(os.path.join(repo, 'include', 'crypto', 'dsa', 'ecdsa.h'))
    res, todo = {}, []
    for c in curves:
        key = hashlib.sha1(repr((GEN_VERSION, sorted(c.items()))).encode()).hexdigest()
        c['_key'] = key
        fp = os.path.join(cache_dir, key + '.txt') if cache_dir else None
        if fp and os.path.exists(fp):
            res[c['idx']] = (open(fp).read().splitlines(), [])
        else:
            todo.append(c)
    if todo:
        clean = [{k: v for k, v in c.items() if k != '_key'} for c in todo]
        with ProcessPoolExecutor(max_workers=workers) as ex:
            for (idx, lines, problems), c in zip(ex.map(gen_curve, clean), todo):
                res[idx] = (lines, problems)
                if cache_dir and lines is not None:
                    os.makedirs(cache_dir, exist_ok=True)
                    tmp = os.path.join(cache_dir, c['_key'] + '.tmp%d' % os.getpid())
                    with open(tmp, 'w') as fh:
                        fh.write('\n'.join(lines) + '\n')
                    os.replace(tmp, os.path.join(cache_dir, c['_key'] + '.txt'))
    problems = {}
    tmp = out_path + '.tmp%d' % os.getpid()
    with open(tmp, 'w') as fh:
        for c in curves:
            lines, pr = res[c['idx']]
            if lines is None:
                problems[c['name']] = pr
                continue
            fh.write('\n'.join(lines) + '\n')
    os.replace(tmp, out_path)
    return curves, problems


if __name__ == '__main__':
    cs, pr = generate(sys.argv[1] if len(sys.argv) > 1 else '/repo', sys.argv[2] if len(sys.argv) > 2 else '/dev/stdout')
    sys.stderr.write('%d curves, problems: %r\n' % (len(cs), pr))
