/* C12 - utility codecs and containers never touch memory outside the caller's buffers,
 * report the size they need instead of overflowing, and terminate.
 *
 * Small-scope exhaustive enumeration (engine E4): for every target all byte strings over a
 * target-specific alphabet up to length n, passed as exact-size heap copies (ASan redzone
 * right behind the last byte); output buffers of every capacity 0 .. need+1 with poisoned,
 * canary-filled margins.  Oracle clauses are in c12_common.h (sweep) and next to each family. */
#include "c12_common.h"

#include "utils/mem_utils.h"
#include "utils/base64.h"
#include "utils/num2str.h"
#include "utils/str2num.h"
#include "utils/strh2num.h"
#include "utils/utf8.h"
#include "utils/asn1.h"
#include "math/crc32.h"
#include "utils/buf_str.h"
#include "utils/xml.h"
#include "utils/ini.h"
#include "utils/bt_encode.h"

#include "c12_codec.inc"
#include "c12_buf.inc"

#include <time.h>
#include <sys/personality.h>

/* Targets of every family, so that a replay (--only target#index) enumerates just that family
 * (case indices are per target and a target belongs to exactly one family). */
#define NAME_N2S(fn, vtype, btype, sgn)	" " #fn
#define NAME_S2N(fn, ctype)		" " #fn
static const struct { const char *fam; const char *targets; } FAM_TARGETS[] = {
	{ "base64", " base64_encode base64_decode base64_decode_fmt base64_en_copy " },
	{ "hex", " cvt_hex2bin cvt_bin2hex " },
	{ "num2str", N2S_LIST(NAME_N2S) " " },
	{ "str2num", S2N_LIST(NAME_S2N) " " },
	{ "utf8", " utf8_decode " },
	{ "asn", " asn_parse " },
	{ "crc32", " crc32a crc32cksum crc32mpeg2 crc32b crc32jamcrc crc32c crc32d crc32q crc32_normal4 crc32_normal8 crc32_reflect4 crc32_reflect8 " },
	{ "mem_search", " mem_chr mem_rchr mem_chr_off mem_rchr_off mem_chr_ptr mem_rchr_ptr mem_find mem_find_off mem_find_ptr " },
	{ "mem_find_stream", " mem_find_stream " },
	{ "replace", " mem_replace_arr xml_encode xml_decode " },
	{ "buf2args", " buf2args " },
	{ "next_line", " buf_get_next_line " },
	{ "xml", " xml_get_val_arr xml_get_val_ns_arr xml_calc_tag_count_args " },
	{ "ini", " ini_buf_parse ini_buf_gen ini_val_set " },
	{ "bt", " bt_en_decode " },
	{ "bt_deep", " bt_en_decode/nesting-depth " },
};

static void
fam_run(const char *name, void (*fn)(void)) {
	const char *only = getenv("C12_FAM"); /* development aid: run one family / print CPU time per family */
	clock_t t0 = clock();
	size_t i; char pat[96];
	if (NULL != only && 0 != strcmp(only, name) && 0 != strcmp(only, "timing")) return;
	if (NULL != vh_only_target) {
		snprintf(pat, sizeof(pat), " %s ", vh_only_target);
		for (i = 0; i < sizeof(FAM_TARGETS) / sizeof(FAM_TARGETS[0]); i ++)
			if (0 == strcmp(FAM_TARGETS[i].fam, name) && NULL == strstr(FAM_TARGETS[i].targets, pat)) return;
	}
	fn();
	if (NULL != only) fprintf(stderr, "fam %-16s %7.2f s cpu, %llu cases so far\n", name, (double)(clock() - t0) / CLOCKS_PER_SEC, (unsigned long long)vh_global);
}
#define FAM(f) fam_run(#f, fam_##f)

int
main(int argc, char **argv) {
	/* Wild reads (asn_parse indexes a table with a tag taken from the message) must hit the same
	 * memory in every run and in the replay: switch address space randomisation off and re-exec. */
	int pers = personality(0xffffffff);
	if (-1 != pers && 0 == (pers & ADDR_NO_RANDOMIZE) && NULL == getenv("C12_NO_REEXEC")) {
		if (-1 != personality((unsigned long)pers | ADDR_NO_RANDOMIZE)) {
			setenv("C12_NO_REEXEC", "1", 1);
			execv("/proc/self/exe", argv);
		}
	}
	vh_init(argc, argv);
	hg_init();
	FAM(base64);
	FAM(hex);
	FAM(num2str);
	FAM(str2num);
	FAM(utf8);
	FAM(asn);
	FAM(crc32);
	FAM(mem_search);
	FAM(mem_find_stream);
	FAM(replace);
	FAM(buf2args);
	FAM(next_line);
	FAM(xml);
	FAM(ini);
	FAM(bt);
	FAM(bt_deep);
	return (vh_finish());
}
