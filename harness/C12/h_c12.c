/* C12 - utility codecs and containers never touch memory outside the caller's buffers,
 * report the size they need instead of overflowing, and terminate.
 *
 * Small-scope exhaustive enumeration (engine E4): for every target all byte strings over a
 * target-specific alphabet up to length n, passed as exact-size heap copies (ASan redzone
 * right behind the last byte); output buffers of every capacity 0 .. need+1 with poisoned,
 * canary-filled margins.  Oracle clauses are in c12_common.h (sweep) and next to each family. */
#include "c12_common.h"

#include "utils/mem_utils.h"
#include "utils/base64.h"
#include "utils/num2str.h"
#include "utils/str2num.h"
#include "utils/strh2num.h"
#include "utils/utf8.h"
#include "utils/asn1.h"
#include "math/crc32.h"
#include "utils/buf_str.h"
#include "utils/xml.h"
#include "utils/ini.h"
#include "utils/bt_encode.h"

#include "c12_codec.inc"
#include "c12_buf.inc"

#include <time.h>
static void
fam_run(const char *name, void (*fn)(void)) {
	const char *only = getenv("C12_FAM"); /* development aid: run one family / print CPU time per family */
	clock_t t0 = clock();
	if (NULL != only && 0 != strcmp(only, name) && 0 != strcmp(only, "timing")) return;
	fn();
	if (NULL != only) fprintf(stderr, "fam %-16s %7.2f s cpu, %llu cases so far\n", name, (double)(clock() - t0) / CLOCKS_PER_SEC, (unsigned long long)vh_global);
}
#define FAM(f) fam_run(#f, fam_##f)

int
main(int argc, char **argv) {
	vh_init(argc, argv);
	hg_init();
	FAM(base64);
	FAM(hex);
	FAM(num2str);
	FAM(str2num);
	FAM(utf8);
	FAM(asn);
	FAM(crc32);
	FAM(mem_search);
	FAM(mem_find_stream);
	FAM(replace);
	FAM(buf2args);
	FAM(next_line);
	FAM(xml);
	FAM(ini);
	FAM(bt);
	FAM(bt_deep);	/* last: may kill the process */
	return (vh_finish());
}
