/* C12 / base64_encode, base64_decode: the terminating NUL is stored at dst[reported size]
 * although dst_size == reported size is accepted.
 *   gcc -I/repo/include -o /tmp/r base64_nul_past_reported_size.c && /tmp/r     (exit 1 = defect present) */
#include <stdio.h>
#include <string.h>
#include <errno.h>
#include "utils/base64.h"
int main(void) {
	uint8_t buf[16]; size_t need = 0, ret = 0; int rc, bad = 0;
	/* encode: ask for the size, then pass exactly that size */
	rc = base64_encode((const uint8_t *)"a", 1, buf, 0, &need);
	printf("base64_encode(\"a\") into 0 bytes: rc=%d (ENOBUFS=%d) reported size=%zu\n", rc, ENOBUFS, need);
	memset(buf, 0xC5, sizeof(buf));
	rc = base64_encode((const uint8_t *)"a", 1, buf, need, &ret);
	printf("base64_encode(\"a\") into %zu bytes: rc=%d, byte behind the buffer = 0x%02x (was 0xC5)\n", need, rc, buf[need]);
	if (0xC5 != buf[need]) bad = 1;
	/* decode */
	need = 0;
	rc = base64_decode((const uint8_t *)"AAAA", 4, buf, 0, &need);
	printf("base64_decode(\"AAAA\") into 0 bytes: rc=%d reported size=%zu\n", rc, need);
	memset(buf, 0xC5, sizeof(buf));
	rc = base64_decode((const uint8_t *)"AAAA", 4, buf, need, &ret);
	printf("base64_decode(\"AAAA\") into %zu bytes: rc=%d, byte behind the buffer = 0x%02x (was 0xC5)\n", need, rc, buf[need]);
	if (0xC5 != buf[need]) bad = 1;
	puts(bad ? "DEFECT REPRODUCED: write one byte past a buffer of exactly the reported size" : "not reproduced");
	return (bad);
}
