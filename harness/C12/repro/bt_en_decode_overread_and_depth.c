/* C12 / bt_en_decode:
 *  (1) after the last list/dict item the end test is `buf_max < cur_pos`, so for "li1e" the byte
 *      behind the message is read (`'e' == *cur_pos` with cur_pos == buf_max);
 *  (2) recursion depth is not bounded: 200000 'l' bytes overflow an 8 MiB stack.
 *   gcc -O2 -D_GNU_SOURCE -DHAVE_REALLOCARRAY -DHAVE_MEMMEM -DHAVE_MEMRCHR -DHAVE_STRNCASECMP -DHAVE_EXPLICIT_BZERO -DHAVE_PIPE2 -DHAVE_ACCEPT4 \
 *       -I/repo/include -o /tmp/r bt_en_decode_overread_and_depth.c /repo/src/utils/bt_encode.c
 *   /tmp/r        -> SIGSEGV reading the guard page behind "li1e"
 *   /tmp/r deep [n]  -> SIGSEGV (stack overflow); n = number of nested lists, default 200000 */
#include <stdio.h>
#include <stdlib.h>
#include <string.h>
#include <sys/mman.h>
#include "utils/bt_encode.h"
int main(int argc, char **argv) {
	bt_en_node_p node = NULL; size_t off = 0; int rc;
	if (argc > 1) {
		size_t n = (argc > 2) ? (size_t)atol(argv[2]) : 200000; uint8_t *m = malloc(n); memset(m, 'l', n);
		rc = bt_en_decode(m, n, &node, &off);
		printf("deep: returned rc=%d (no defect)\n", rc);
		return (0);
	}
	/* message flush against a PROT_NONE page */
	uint8_t *p = mmap(NULL, 8192, PROT_READ | PROT_WRITE, MAP_PRIVATE | MAP_ANONYMOUS, -1, 0);
	mprotect(p + 4096, 4096, PROT_NONE);
	memcpy(p + 4096 - 4, "li1e", 4);
	rc = bt_en_decode(p + 4096 - 4, 4, &node, &off);
	printf("li1e: returned rc=%d (no defect)\n", rc);
	return (0);
}
