/* C12 / buf2args: the terminator of the last argument is stored at buf[buf_size] when the
 * argument reaches the end of the buffer.
 *   gcc -D_GNU_SOURCE -DHAVE_REALLOCARRAY -DHAVE_MEMMEM -DHAVE_MEMRCHR -DHAVE_STRNCASECMP -DHAVE_EXPLICIT_BZERO -DHAVE_PIPE2 -DHAVE_ACCEPT4 \
 *       -I/repo/include -o /tmp/r buf2args_nul_past_end.c /repo/src/utils/buf_str.c && /tmp/r   (exit 1 = defect present) */
#include <stdio.h>
#include <string.h>
#include "utils/buf_str.h"
int main(void) {
	char mem[8]; char *args[2]; size_t sizes[2], n;
	memset(mem, 0xC5, sizeof(mem)); memcpy(mem, "ab", 2);
	n = buf2args(mem, 2, 2, args, sizes);
	printf("buf2args(\"ab\", buf_size=2): %zu argument(s); buf[2] = 0x%02x (was 0xC5)\n", n, (unsigned char)mem[2]);
	if ((char)0xC5 != mem[2]) { puts("DEFECT REPRODUCED: write at buf[buf_size]"); return (1); }
	puts("not reproduced"); return (0);
}
