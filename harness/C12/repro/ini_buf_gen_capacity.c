/* (FIXED in /repo by 39a3f75 while this harness was being built - kept as a regression reproducer; on 959b358 it exits 1.)
 * C12 / ini_buf_gen: the capacity test compares each line with the whole buf_size, not with the
 * space that is left, so a buffer smaller than ini_buf_calc_size() is overrun (rc = 0).
 *   gcc -D_GNU_SOURCE -DHAVE_REALLOCARRAY -DHAVE_MEMMEM -DHAVE_MEMRCHR -DHAVE_STRNCASECMP -DHAVE_EXPLICIT_BZERO -DHAVE_PIPE2 -DHAVE_ACCEPT4 \
 *       -I/repo/include -o /tmp/r ini_buf_gen_capacity.c /repo/src/utils/ini.c /repo/src/utils/buf_str.c && /tmp/r   (exit 1 = defect present) */
#include <stdio.h>
#include <string.h>
#include "utils/ini.h"
int main(void) {
	ini_p ini; uint8_t out[32]; size_t need = 0, ret = 0; int rc;
	ini_create(&ini);
	ini_buf_parse(ini, (const uint8_t *)"a=1\nb=2\n", 8);
	ini_buf_calc_size(ini, &need);
	memset(out, 0xC5, sizeof(out));
	rc = ini_buf_gen(ini, out, 5, &ret); /* room for one line only */
	printf("calc_size=%zu; ini_buf_gen into 5 bytes: rc=%d, reports %zu bytes written, out[5]=0x%02x (was 0xC5)\n", need, rc, ret, out[5]);
	ini_destroy(ini);
	if (0xC5 != out[5]) { puts("DEFECT REPRODUCED: wrote past a 5 byte buffer"); return (1); }
	puts("not reproduced"); return (0);
}
