/* C12 / mem_replace_arr (xml_encode, xml_decode): the ENOBUFS test uses the length of the
 * *source* pattern and `<=`, and the copy of the tail behind the last match is not checked at all.
 *   gcc -D_GNU_SOURCE -DHAVE_REALLOCARRAY -DHAVE_MEMMEM -DHAVE_MEMRCHR -DHAVE_STRNCASECMP -DHAVE_EXPLICIT_BZERO -DHAVE_PIPE2 -DHAVE_ACCEPT4 \
 *       -I/repo/include -o /tmp/r mem_replace_arr_xml_encode_overflow.c /repo/src/utils/xml.c && /tmp/r   (exit 1 = defect present) */
#include <stdio.h>
#include <string.h>
#include <errno.h>
#include "utils/xml.h"
int main(void) {
	uint8_t out[32]; size_t ret = 0; int rc, bad = 0;
	memset(out, 0xC5, sizeof(out));
	rc = xml_encode((const uint8_t *)"abc", 3, out, 1, &ret);		/* no match: unchecked tail copy */
	printf("xml_encode(\"abc\") into 1 byte: rc=%d size=%zu out[1]=0x%02x (was 0xC5)\n", rc, ret, out[1]);
	if (0xC5 != out[1]) bad = 1;
	memset(out, 0xC5, sizeof(out));
	rc = xml_encode((const uint8_t *)"a&", 2, out, 3, &ret);		/* replacement longer than the pattern */
	printf("xml_encode(\"a&\") into 3 bytes: rc=%d size=%zu out[3]=0x%02x (was 0xC5)\n", rc, ret, out[3]);
	if (0xC5 != out[3]) bad = 1;
	memset(out, 0xC5, sizeof(out));
	rc = xml_decode((const uint8_t *)"&lt;", 4, out, 4, &ret);		/* needs 1 byte, 4 are refused */
	printf("xml_decode(\"&lt;\") into 4 bytes: rc=%d (ENOBUFS=%d) - the output is 1 byte\n", rc, ENOBUFS);
	if (ENOBUFS == rc) bad = 1;
	puts(bad ? "DEFECT REPRODUCED" : "not reproduced");
	return (bad);
}
