/* C12 / asn_parse: a long-form tag number taken from the message indexes asn_class_uni_ps[32].
 *   gcc -fsanitize=address -g -I/repo/include -o /tmp/r asn_parse_tag_table_index.c && /tmp/r
 *       -> global-buffer-overflow READ in asn_parse (asn1.h, "Flags check") for 1f 30 02
 *   gcc -I/repo/include -o /tmp/r asn_parse_tag_table_index.c && /tmp/r big
 *       -> SIGSEGV: tag 0x7fffffff... from 1f ff ff ff ff ff ff ff 7f 00 */
#include <stdio.h>
#include <string.h>
#include <errno.h>
#include "utils/asn1.h"
int main(int argc, char **argv) {
	uint8_t small[] = { 0x1f, 0x30, 0x02 };				/* universal class, long form, tag 48 */
	uint8_t big[] = { 0x1f, 0xff, 0xff, 0xff, 0xff, 0xff, 0xff, 0xff, 0x7f, 0x00 };	/* tag 2^56-1 */
	uint8_t *m = (argc > 1) ? big : small, cls, ps, *data; size_t n = (argc > 1) ? sizeof(big) : sizeof(small), hdr, tag, dsz;
	int rc = asn_parse(m, n, NULL, &hdr, &cls, &ps, &tag, &data, &dsz);
	printf("rc=%d tag=%zu (asn_class_uni_ps[] has %zu entries): returned without sanitizer report / crash = no defect\n", rc, tag, sizeof(asn_class_uni_ps));
	return (0);
}
