/* C12 / xml_get_val_arr (same code in xml_get_val_ns_arr), xml_calc_tag_count_args.
 *   gcc -D_GNU_SOURCE -DHAVE_REALLOCARRAY -DHAVE_MEMMEM -DHAVE_MEMRCHR -DHAVE_STRNCASECMP -DHAVE_EXPLICIT_BZERO -DHAVE_PIPE2 -DHAVE_ACCEPT4 \
 *       -I/repo/include -o /tmp/r xml_get_val_arr_bounds.c /repo/src/utils/xml.c
 *   /tmp/r 1  -> SIGSEGV: data "<" - `switch (*TagStart)` reads xml_data[xml_data_size]
 *   /tmp/r 2  -> SIGSEGV: data "</a>" - unmatched close tag reads tag_arr[cur_tag - 1] with cur_tag == 0
 *   /tmp/r 3  -> SIGSEGV: data "<a><b>", path {a} - a tag inside the target reads tag_arr[tag_arr_count]
 *   /tmp/r 4  -> "DEFECT REPRODUCED: no termination": xml_calc_tag_count_args("<a></a>", "a") never returns */
#include <stdio.h>
#include <stdlib.h>
#include <string.h>
#include <signal.h>
#include <unistd.h>
#include <sys/mman.h>
#include "utils/xml.h"
static uint8_t *page(void) { /* one RW page between two PROT_NONE pages; returns the RW page */
	uint8_t *p = mmap(NULL, 3 * 4096, PROT_NONE, MAP_PRIVATE | MAP_ANONYMOUS, -1, 0);
	mprotect(p + 4096, 4096, PROT_READ | PROT_WRITE); return (p + 4096);
}
static void *at_end(const void *s, size_t n) { uint8_t *p = page() + 4096 - n; memcpy(p, s, n); return (p); }
static void *at_start(const void *s, size_t n) { uint8_t *p = page(); memcpy(p, s, n); return (p); }
static void on_alarm(int s) { (void)s; puts("DEFECT REPRODUCED: no termination (2 s)"); fflush(stdout); _exit(1); }
int main(int argc, char **argv) {
	int which = (argc > 1) ? atoi(argv[1]) : 1, rc = 0;
	const uint8_t *tagp[1] = { (const uint8_t *)"a" }; size_t tagl[1] = { 1 };
	const uint8_t *attr, *val; size_t attr_size, val_size;
	switch (which) {
	case 1: rc = xml_get_val_arr(at_end("<", 1), 1, NULL, 1, tagp, tagl, &attr, &attr_size, &val, &val_size); break;
	case 2: rc = xml_get_val_arr((const uint8_t *)"</a>", 4, NULL, 1, at_start(tagp, sizeof(tagp)), at_start(tagl, sizeof(tagl)), &attr, &attr_size, &val, &val_size); break;
	case 3: rc = xml_get_val_arr((const uint8_t *)"<a><b>", 6, NULL, 1, at_end(tagp, sizeof(tagp)), at_end(tagl, sizeof(tagl)), &attr, &attr_size, &val, &val_size); break;
	case 4: signal(SIGALRM, on_alarm); alarm(2);
		printf("count=%zu\n", xml_calc_tag_count_args((const uint8_t *)"<a></a>", 7, (const uint8_t *)"a", NULL)); break;
	}
	printf("returned rc=%d (no defect)\n", rc);
	return (0);
}
