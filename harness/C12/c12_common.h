/* C12 - shared helpers: string enumerator, capacity sweep, in-process hang guard.
 * Included once by h_c12.c (vh.h keeps static state, so the harness is a single TU). */
#ifndef C12_COMMON_H
#define C12_COMMON_H

#include <errno.h>
#include <inttypes.h>
#include <limits.h>
#include <setjmp.h>
#include <signal.h>
#include <sys/time.h>
#include <sys/mman.h>
#include <ucontext.h>
#include "vh.h"

#define HG_TICK_US 20000				/* hang guard tick, microseconds of CPU time */
#define SENT	((size_t)0xA5A5A5A5A5A5A5A5ull)	/* "the callee did not store a size" */

/* ------------------------------------------------------------ case description */
static const uint8_t *g_in; static size_t g_in_len;	/* current input */
static size_t g_cap = SENT;				/* capacity being tried (SENT = n/a) */
static const char *g_note = "";				/* call variant inside the case */
static char g_extra[160];				/* free text set by the family */

static void
c12_describe(char *b, size_t n) {
	char hx[160];
	size_t o;
	vh_hex(hx, sizeof(hx), g_in, g_in_len > 70 ? 70 : g_in_len);
	o = (size_t)snprintf(b, n, "in=%s len=%zu", hx, g_in_len);
	if (g_cap != SENT && o < n) o += (size_t)snprintf(b + o, n - o, " cap=%zu", g_cap);
	if (g_note[0] && o < n) o += (size_t)snprintf(b + o, n - o, " %s", g_note);
	if (g_extra[0] && o < n) snprintf(b + o, n - o, " %s", g_extra);
}

static inline void
c12_case(const uint8_t *in, size_t len) {
	g_in = in; g_in_len = len; g_cap = SENT; g_note = ""; g_extra[0] = 0;
}

/* ------------------------------------------------------------ all strings over an alphabet, by length */
typedef struct senum_s {
	const uint8_t *sig; size_t nsig, maxlen, len;
	uint8_t idx[24]; uint8_t s[24]; int st;
} senum_t;

static void
senum_init(senum_t *e, const void *sig, size_t nsig, size_t maxlen) {
	memset(e, 0, sizeof(*e));
	e->sig = (const uint8_t *)sig; e->nsig = nsig; e->maxlen = maxlen;
}

static int
senum_next(senum_t *e) { /* first call yields the empty string */
	size_t i;
	if (0 == e->st) { e->st = 1; e->len = 0; return (1); }
	for (i = e->len; i > 0; i --) {
		if (++ e->idx[i - 1] < e->nsig) { e->s[i - 1] = e->sig[e->idx[i - 1]]; return (1); }
		e->idx[i - 1] = 0; e->s[i - 1] = e->sig[0];
	}
	if (e->len == e->maxlen) return (0);
	e->len ++;
	for (i = 0; i < e->len; i ++) { e->idx[i] = 0; e->s[i] = e->sig[0]; }
	return (1);
}

/* ------------------------------------------------------------ guard-page arena
 * ASan reports cost about a millisecond each; a target that over-reads on a tenth of all inputs
 * would spend the whole budget printing reports.  For such targets (all of them non-allocating, run
 * under hg_call) the objects are placed in small mmap()ed slots instead: one read/write page between
 * two PROT_NONE pages, the object flush against the upper guard (over-run faults) or against the
 * lower guard (under-run faults).  The fault is turned into a clause by the SIGSEGV handler below. */
#define GP_SLOTS 8
#define GP_PAGE	4096
typedef struct gp_slot_s { uint8_t *lo, *rw, *hi; const char *name; uint8_t *obj; size_t obj_len; } gp_slot_t;
static gp_slot_t gp[GP_SLOTS];

static void
gp_init(void) {
	int i;
	for (i = 0; i < GP_SLOTS; i ++) {
		uint8_t *m = (uint8_t *)mmap(NULL, 3 * GP_PAGE, PROT_NONE, MAP_PRIVATE | MAP_ANONYMOUS, -1, 0);
		if (MAP_FAILED == (void *)m || 0 != mprotect(m + GP_PAGE, GP_PAGE, PROT_READ | PROT_WRITE)) { fprintf(stderr, "gp_init failed\n"); exit(2); }
		gp[i].lo = m; gp[i].rw = m + GP_PAGE; gp[i].hi = m + 2 * GP_PAGE; gp[i].name = "";
	}
}

static void *
gp_place(int slot, const char *name, const void *src, size_t len, int at_end) {
	uint8_t *p = at_end ? gp[slot].hi - len : gp[slot].rw;
	gp[slot].name = name; gp[slot].obj = p; gp[slot].obj_len = len;
	if (len && NULL != src) memcpy(p, src, len);
	return (p);
}

/* ------------------------------------------------------------ hang guard (non-allocating callees only)
 * A repeating ITIMER_VIRTUAL tick; a guarded call that is still the same call on two
 * consecutive ticks (>= HG_TICK_US of CPU, a normal call takes microseconds) is abandoned with
 * siglongjmp.  Only used around liblcb functions that neither allocate nor lock. */
static sigjmp_buf hg_env;
static volatile sig_atomic_t hg_armed, hg_why;
static volatile uint64_t hg_serial, hg_seen;

static void
hg_tick(int sig) {
	(void)sig;
	if (!hg_armed) return;
	if (hg_seen == hg_serial) { hg_armed = 0; hg_why = 1; siglongjmp(hg_env, 1); }
	hg_seen = hg_serial;
}

/* A wild access (e.g. a table indexed with an attacker-controlled value) or an access to a guard
 * page of the arena faults instead of hitting a redzone.  Inside a guarded call the fault is recorded
 * for the current case and enumeration goes on; anywhere else the default action is restored so that
 * the driver sees the crash. */
static volatile int hg_fault_slot, hg_fault_hi, hg_fault_write; static volatile long hg_fault_off;
static void
hg_fault(int sig, siginfo_t *si, void *uc) {
	if (hg_armed) {
		int i; const uint8_t *a = (const uint8_t *)si->si_addr;
		hg_armed = 0; hg_why = (SIGSEGV == sig) ? 2 : 3; hg_fault_slot = -1;
#ifdef REG_ERR
		hg_fault_write = (0 != (((ucontext_t *)uc)->uc_mcontext.gregs[REG_ERR] & 2));
#endif
		for (i = 0; i < GP_SLOTS; i ++) {
			if (a >= gp[i].lo && a < gp[i].rw) { hg_fault_slot = i; hg_fault_hi = 0; hg_why = 4; hg_fault_off = (long)(a - gp[i].obj); }
			if (a >= gp[i].hi && a < gp[i].hi + GP_PAGE) { hg_fault_slot = i; hg_fault_hi = 1; hg_why = 4; hg_fault_off = (long)(a - gp[i].obj); }
		}
		siglongjmp(hg_env, 1);
	}
	signal(sig, SIG_DFL);
	raise(sig);
}

static void
hg_init(void) {
	struct sigaction sa; struct itimerval it;
	gp_init();
	memset(&sa, 0, sizeof(sa)); sigemptyset(&sa.sa_mask); sa.sa_flags = SA_NODEFER;
	sa.sa_handler = hg_tick; sigaction(SIGVTALRM, &sa, NULL);
	sa.sa_flags = SA_NODEFER | SA_SIGINFO; sa.sa_sigaction = hg_fault;
	sigaction(SIGSEGV, &sa, NULL); sigaction(SIGBUS, &sa, NULL);
	it.it_interval.tv_sec = 0; it.it_interval.tv_usec = HG_TICK_US; it.it_value = it.it_interval;
	setitimer(ITIMER_VIRTUAL, &it, NULL);
}

/* returns 1 when the callee had to be abandoned (clause no-termination, guard-page:* or fault-*) */
static int __attribute__((noinline))
hg_call(void (*fn)(void *), void *ctx) {
	hg_serial ++;
	if (0 == sigsetjmp(hg_env, 0)) { /* handlers are SA_NODEFER: no signal mask to restore */
		hg_armed = 1; fn(ctx); hg_armed = 0;
		return (0);
	}
	if (1 == hg_why) vh_fail("no-termination", "call did not return within %d ms of CPU time (abandoned)", HG_TICK_US / 1000);
	else if (4 == hg_why) {
		char clause[64];
		snprintf(clause, sizeof(clause), "guard-page:%s-%s:%s", hg_fault_write ? "WRITE" : "READ", hg_fault_hi ? "past-end" : "before-start", gp[hg_fault_slot].name);
		vh_fail(clause, "access to the guard page %s the object '%s' (%zu bytes): byte offset %ld", hg_fault_hi ? "right behind" : "right before",
		    gp[hg_fault_slot].name, gp[hg_fault_slot].obj_len, hg_fault_off);
	} else vh_fail((2 == hg_why) ? "fault-SIGSEGV" : "fault-SIGBUS", "the call faulted on an unmapped address");
	return (1);
}

/* ------------------------------------------------------------ output buffers
 * `cap` usable bytes with 128 canary bytes on both sides inside one heap block.  The margins are
 * deliberately NOT poisoned: a near overflow is then found by the canary comparison (cheap) instead
 * of an ASan report (about a millisecond each - some targets overflow on every input).  Anything
 * farther than 128 bytes away still hits the real ASan redzone of the block. */
#define OUT_PAD	128
typedef struct out_buf_s { uint8_t *base, *buf; size_t cap; } out_buf_t;

static inline uint8_t *
out_alloc(out_buf_t *g, size_t cap) {
	g->base = (uint8_t *)malloc(cap + 2 * OUT_PAD);
	g->buf = g->base + OUT_PAD; g->cap = cap;
	memset(g->base, 0xC5, cap + 2 * OUT_PAD);
	return (g->buf);
}

/* 0 = intact; otherwise *where = signed distance of the first modified byte from buf (negative:
 * before the buffer; >= cap: behind it) */
static inline int
out_check(out_buf_t *g, long *where) {
	size_t i;
	for (i = 0; i < OUT_PAD; i ++) if (g->base[i] != 0xC5) { *where = (long)i - OUT_PAD; return (1); }
	for (i = 0; i < OUT_PAD; i ++) if (g->buf[g->cap + i] != 0xC5) { *where = (long)(g->cap + i); return (1); }
	return (0);
}
static inline void out_free(out_buf_t *g) { free(g->base); g->base = NULL; }

/* ------------------------------------------------------------ capacity sweep */
typedef struct call_res_s {
	int	cls;		/* 0 = success, 1 = "buffer too small", 2 = other refusal */
	int	rc;
	size_t	reported;	/* size stored by the callee when cls == 1 (SENT: none) */
	size_t	produced;	/* bytes the callee says it wrote when cls == 0 (SENT: unknown) */
} call_res_t;
typedef void (*sweep_fn)(void *ctx, uint8_t *dst, size_t cap, call_res_t *r);

#define SWEEP_HARD_MAX	96

/* Try every capacity 0 .. max(need+1, cap_to) where need starts at need0 and grows to whatever
 * the callee reports.  Output buffers are out_alloc() buffers (canary on both sides).
 *   write-outside-capacity     a canary byte changed
 *   reported-size-insufficient callee said "need R", call with capacity R said "too small" again
 *   exact-size-refused         (exact != 0) capacity >= need0 (the contractual size) refused
 *   len-exceeds-capacity       success, and the length it reports is larger than the capacity
 * Returns the number of successful calls. */
static int
sweep(sweep_fn fn, void *ctx, size_t need0, int exact, size_t cap_min, size_t cap_to) {
	size_t need = need0, cap, last_rep = SENT, hi;
	int ok = 0;
	for (cap = 0; ; cap ++) {
		out_buf_t g; call_res_t r; uint8_t *dst; long where;
		hi = (need + 1 > cap_to) ? need + 1 : cap_to;
		if (hi > SWEEP_HARD_MAX) hi = SWEEP_HARD_MAX;
		if (cap > hi) break;
		r.cls = 2; r.rc = 0; r.reported = SENT; r.produced = SENT;
		dst = out_alloc(&g, cap);
		g_cap = cap;
		fn(ctx, dst, cap, &r);
		if (out_check(&g, &where))
			vh_fail("write-outside-capacity", "byte dst[%ld] modified, capacity %zu (rc=%d)", where, cap, r.rc);
		if (1 == r.cls && SENT != last_rep && cap == last_rep)
			vh_fail("reported-size-insufficient", "callee reported %zu as required, capacity %zu refused again (rc=%d)", last_rep, cap, r.rc);
		if (1 == r.cls && SENT != r.reported) {
			last_rep = r.reported;
			if (r.reported > need) need = r.reported;
		}
		if (0 != exact && 1 == r.cls && cap >= need0 && cap >= cap_min)
			vh_fail("exact-size-refused", "output needs %zu bytes, capacity %zu refused (rc=%d)", need0, cap, r.rc);
		if (0 == r.cls) {
			ok ++;
			if (SENT != r.produced && r.produced > cap)
				vh_fail("len-exceeds-capacity", "success with reported length %zu > capacity %zu", r.produced, cap);
		}
		out_free(&g);
	}
	g_cap = SENT;
	return (ok);
}

#endif /* C12_COMMON_H */
