from vlib import core

SRC = ['harness/C12/h_c12.c']
REPO_SRC = [('utils', 'buf_str.c'), ('utils', 'xml.c'), ('utils', 'ini.c'), ('utils', 'bt_encode.c')]

def build():
    return core.compile_c('C12', 'h_c12', SRC + [core.repo_src(*p) for p in REPO_SRC], libs=['-lpthread'])

def run(tier):
    rep = core.Report('C12', tier, 'exploration',
        'per target: every byte string over a target-specific alphabet up to length n (skeleton + fill for XML), '
        'inputs as exact-size heap copies, every output capacity 0..need+1 (need = what the callee reported, or its '
        'contractual size); a case is non-trivial when the callee accepted the input / produced output at least once')
    rep.assumptions = ['ASan (gcc, -O1) sees every access of the compiled liblcb sources and of libc mem*/str* calls',
                       'a call that burns >= 20 ms of CPU is non-terminating (normal calls take microseconds)',
                       'bt_en_decode/nesting-depth decodes in a forked child on an 8 MiB thread stack (Linux default)']
    b = build()
    core.run_sharded(rep, b, tier, hang_s=120)
    rep.finish(core.make_replayer(lambda cfg: b, tier))
