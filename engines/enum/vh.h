/*
 * vh.h - tiny runtime shared by every enumeration harness (engines E3/E4).
 *
 * A harness enumerates a finite space of cases.  For every case it calls
 * vh_begin(target); if that returns non-zero it runs the case, reports oracle
 * failures with vh_fail() and optionally vh_nontrivial()/vh_outcome().
 * AddressSanitizer runs in recover mode; every ASan report is attributed to the
 * case that is current (callback below).  Progress is mirrored into a shared
 * file so that the python driver can attribute a crash or a hang.
 *
 * stdout protocol (tab separated):
 *   VIOL  <target> <clause> <index> <case description>
 *   STAT  <target> <key> <integer>
 *   SAMPLE <target> <index> <case description>
 *   DONE
 */
#ifndef VH_H
#define VH_H

#include <stdio.h>
#include <stdlib.h>
#include <string.h>
#include <stdint.h>
#include <stdarg.h>
#include <unistd.h>
#include <fcntl.h>
#include <sys/mman.h>

#define VH_MAX_TARGETS	256
#define VH_DESC_MAX	1024
#define VH_VIOL_PRINT_MAX 4	/* printed per (target, clause); the rest is counted */
#define VH_SAMPLES_MAX	2

typedef struct vh_target_s {
	const char *name;
	uint64_t cases;		/* cases of this target seen by the enumerator (all shards see all) */
	uint64_t run;		/* cases run by this shard */
	uint64_t nontrivial;
	uint64_t fails;
	uint64_t outcomes;	/* distinct outcome hashes (this shard) */
	int	 samples;
} vh_target_t;

typedef struct vh_clause_s {
	int	target;
	char	clause[96];
	uint64_t count;
} vh_clause_t;

typedef struct vh_progress_s {
	volatile uint64_t global;	/* global case counter of the running case */
	volatile uint64_t index;	/* per target index */
	char	target[64];
	char	desc[VH_DESC_MAX];
} vh_progress_t;

static vh_target_t vh_targets[VH_MAX_TARGETS];
static int vh_ntargets = 0;
static vh_clause_t vh_clauses[1024];
static int vh_nclauses = 0;
static int vh_cur = -1;			/* current target */
static uint64_t vh_cur_index = 0;
static uint64_t vh_global = 0;
static int vh_shard = 0, vh_nshards = 1;
static const char *vh_only_target = NULL;
static int64_t vh_only_index = -1;
static uint64_t vh_skip_until = 0;	/* skip cases with global counter <= this (crash resume) */
static int vh_thorough = 0;
static int vh_verbose = 0;
static vh_progress_t vh_progress_local;
static vh_progress_t *vh_progress = &vh_progress_local;
static char vh_desc_buf[VH_DESC_MAX];
static int vh_desc_set = 0;
static int vh_case_failed = 0;
static uint64_t vh_asan_reports = 0;
static inline int vh_finish(void);
/* optional lazily evaluated describer */
static void (*vh_describer)(char *buf, size_t buf_size) = NULL;

#define VH_OUTCOME_TBL (1u << 18)
static uint64_t *vh_outcome_tbl = NULL;


static inline void
vh_hex(char *dst, size_t dst_size, const void *src, size_t len) {
	static const char hx[] = "0123456789abcdef";
	const uint8_t *s = (const uint8_t *)src;
	size_t i, o = 0;
	for (i = 0; i < len && o + 3 < dst_size; i ++) {
		dst[o ++] = hx[s[i] >> 4];
		dst[o ++] = hx[s[i] & 15];
	}
	dst[o] = 0;
}

static inline int
vh_target_id(const char *name) {
	int i;
	/* Fast path: same literal as last time. */
	if (vh_cur >= 0 && vh_targets[vh_cur].name == name)
		return (vh_cur);
	for (i = 0; i < vh_ntargets; i ++) {
		if (vh_targets[i].name == name || 0 == strcmp(vh_targets[i].name, name))
			return (i);
	}
	if (vh_ntargets == VH_MAX_TARGETS) {
		fprintf(stderr, "vh: too many targets\n");
		exit(2);
	}
	vh_targets[vh_ntargets].name = name;
	return (vh_ntargets ++);
}

/* Describe the current case (printf style).  Cheap enough for most harnesses;
 * very hot loops can use vh_set_describer() instead. */
static inline void
vh_desc(const char *fmt, ...) {
	va_list ap;
	va_start(ap, fmt);
	vsnprintf(vh_desc_buf, sizeof(vh_desc_buf), fmt, ap);
	va_end(ap);
	vh_desc_set = 1;
}

static inline void
vh_set_describer(void (*fn)(char *, size_t)) {
	vh_describer = fn;
}

static inline const char *
vh_get_desc(void) {
	if (0 == vh_desc_set) {
		vh_desc_buf[0] = 0;
		if (NULL != vh_describer)
			vh_describer(vh_desc_buf, sizeof(vh_desc_buf));
		vh_desc_set = 1;
	}
	return (vh_desc_buf);
}

/* Start a case.  Returns 0 if this shard / filter must skip it. */
static inline int
vh_begin(const char *target) {
	int t = vh_target_id(target);

	vh_cur = t;
	vh_cur_index = vh_targets[t].cases ++;
	vh_global ++;
	vh_desc_set = 0;
	vh_case_failed = 0;
	if (NULL != vh_only_target) {
		if (0 != strcmp(vh_only_target, target))
			return (0);
		if (vh_only_index >= 0 && (uint64_t)vh_only_index != vh_cur_index)
			return (0);
	} else {
		if ((vh_global % (uint64_t)vh_nshards) != (uint64_t)vh_shard)
			return (0);
		if (vh_global <= vh_skip_until)
			return (0);
	}
	vh_targets[t].run ++;
	vh_progress->global = vh_global;
	vh_progress->index = vh_cur_index;
	if (vh_progress->target[0] != target[0] ||
	    0 != strcmp(vh_progress->target, target)) {
		strncpy(vh_progress->target, target, sizeof(vh_progress->target) - 1);
	}
	return (1);
}

/* For hot loops: publish the description into the progress page (crash attribution). */
static inline void
vh_publish_desc(void) {
	strncpy(vh_progress->desc, vh_get_desc(), VH_DESC_MAX - 1);
}

static inline void
vh_sample(void) {
	if (vh_cur < 0 || vh_targets[vh_cur].samples >= VH_SAMPLES_MAX)
		return;
	vh_targets[vh_cur].samples ++;
	printf("SAMPLE\t%s\t%llu\t%s\n", vh_targets[vh_cur].name,
	    (unsigned long long)vh_cur_index, vh_get_desc());
}

static inline void
vh_nontrivial(void) {
	if (vh_cur >= 0) {
		vh_targets[vh_cur].nontrivial ++;
		vh_sample();
	}
}

/* Record an outcome (any bytes); distinct outcomes are counted (vacuity indicator). */
static inline void
vh_outcome(const void *data, size_t len) {
	const uint8_t *p = (const uint8_t *)data;
	uint64_t h = 1469598103934665603ull;
	size_t i;
	uint32_t pos, n;

	if (vh_cur < 0)
		return;
	h ^= (uint64_t)(vh_cur + 1) * 0x9E3779B97F4A7C15ull;
	for (i = 0; i < len; i ++) {
		h ^= p[i];
		h *= 1099511628211ull;
	}
	if (0 == h)
		h = 1;
	if (NULL == vh_outcome_tbl)
		vh_outcome_tbl = (uint64_t *)calloc(VH_OUTCOME_TBL, sizeof(uint64_t));
	pos = (uint32_t)(h >> 20) & (VH_OUTCOME_TBL - 1);
	for (n = 0; n < 64; n ++) {	/* bounded probing: undercounts when the table is crowded */
		if (vh_outcome_tbl[pos] == h)
			return;
		if (0 == vh_outcome_tbl[pos]) {
			vh_outcome_tbl[pos] = h;
			vh_targets[vh_cur].outcomes ++;
			return;
		}
		pos = (pos + 1) & (VH_OUTCOME_TBL - 1);
	}
}

static inline void
vh_fail(const char *clause, const char *fmt, ...) {
	int i;
	va_list ap;
	char msg[512];
	vh_clause_t *c = NULL;

	if (vh_cur < 0)
		vh_cur = vh_target_id("(none)");
	for (i = 0; i < vh_nclauses; i ++) {
		if (vh_clauses[i].target == vh_cur &&
		    0 == strcmp(vh_clauses[i].clause, clause)) {
			c = &vh_clauses[i];
			break;
		}
	}
	if (NULL == c) {
		if (vh_nclauses == 1024)
			return;
		c = &vh_clauses[vh_nclauses ++];
		c->target = vh_cur;
		strncpy(c->clause, clause, sizeof(c->clause) - 1);
		c->count = 0;
	}
	c->count ++;
	if (0 == vh_case_failed) {
		vh_case_failed = 1;
		vh_targets[vh_cur].fails ++;
	}
	if (c->count > VH_VIOL_PRINT_MAX && 0 == vh_verbose)
		return;
	va_start(ap, fmt);
	vsnprintf(msg, sizeof(msg), fmt, ap);
	va_end(ap);
	printf("VIOL\t%s\t%s\t%llu\t%s | %s\n", vh_targets[vh_cur].name, clause,
	    (unsigned long long)vh_cur_index, vh_get_desc(), msg);
	fflush(stdout);
}

/* ASan (recover mode) calls this with the full report text. */
static void
vh_asan_report_cb(const char *report) {
	char kind[64] = "unknown", rw[8] = "", clause[96];
	const char *p;
	size_t i;

	p = strstr(report, "AddressSanitizer: ");
	if (NULL != p) {
		p += 18;
		for (i = 0; i + 1 < sizeof(kind) && p[i] != 0 && p[i] != ' ' &&
		    p[i] != '\n' && p[i] != ':'; i ++) {
			kind[i] = p[i];
		}
		kind[i] = 0;
	}
	if (NULL != strstr(report, "\nWRITE of size") || NULL != strstr(report, " WRITE of size"))
		strcpy(rw, "WRITE");
	else if (NULL != strstr(report, "READ of size"))
		strcpy(rw, "READ");
	snprintf(clause, sizeof(clause), "asan:%s:%s", kind, rw);
	vh_fail(clause, "AddressSanitizer report");
	/* suppress_equal_pcs=0 (so that a second target hitting the same interceptor pc is still
	 * reported) makes every report cost ~1 ms: give up on this shard after many reports - the
	 * violations are already on record, the run is marked not exhaustive. */
	if (++ vh_asan_reports > 20000) {
		printf("NOTE\tcut\tmore than 20000 AddressSanitizer reports in one shard: enumeration stopped early\n");
		vh_finish();
		_exit(0);
	}
}

#if defined(__SANITIZE_ADDRESS__)
#  define VH_HAS_ASAN 1
#elif defined(__has_feature)
#  if __has_feature(address_sanitizer)
#    define VH_HAS_ASAN 1
#  endif
#endif
#ifdef VH_HAS_ASAN
void __asan_set_error_report_callback(void (*cb)(const char *));
const char *__asan_default_options(void);
const char *
__asan_default_options(void) {
	return ("halt_on_error=0:detect_leaks=0:detect_stack_use_after_return=1:"
	    "allocator_may_return_null=1:print_summary=0:symbolize=0:"
	    "detect_odr_violation=0:quarantine_size_mb=16:suppress_equal_pcs=0");
}
#endif

static inline void
vh_init(int argc, char **argv) {
	int i, fd;
	const char *progress_path = NULL;

	for (i = 1; i < argc; i ++) {
		if (0 == strcmp(argv[i], "--shard") && i + 1 < argc) {
			sscanf(argv[++ i], "%d/%d", &vh_shard, &vh_nshards);
		} else if (0 == strcmp(argv[i], "--only") && i + 1 < argc) {
			char *c;
			vh_only_target = strdup(argv[++ i]);
			c = strrchr((char *)vh_only_target, '#');
			if (NULL != c) {
				*c = 0;
				vh_only_index = strtoll(c + 1, NULL, 10);
			}
			vh_verbose = 1;
		} else if (0 == strcmp(argv[i], "--skip-until") && i + 1 < argc) {
			vh_skip_until = strtoull(argv[++ i], NULL, 10);
		} else if (0 == strcmp(argv[i], "--tier") && i + 1 < argc) {
			vh_thorough = (0 == strcmp(argv[++ i], "thorough"));
		} else if (0 == strcmp(argv[i], "--progress") && i + 1 < argc) {
			progress_path = argv[++ i];
		} else if (0 == strcmp(argv[i], "--verbose")) {
			vh_verbose = 1;
		}
	}
	if (NULL != progress_path) {
		fd = open(progress_path, O_RDWR | O_CREAT | O_TRUNC, 0644);
		if (fd >= 0 && 0 == ftruncate(fd, sizeof(vh_progress_t))) {
			void *m = mmap(NULL, sizeof(vh_progress_t),
			    PROT_READ | PROT_WRITE, MAP_SHARED, fd, 0);
			if (MAP_FAILED != m)
				vh_progress = (vh_progress_t *)m;
		}
		if (fd >= 0)
			close(fd);
	}
	setvbuf(stdout, NULL, _IOFBF, 1 << 16);
#ifdef VH_HAS_ASAN
	__asan_set_error_report_callback(vh_asan_report_cb);
#endif
}

static inline int
vh_finish(void) {
	int i;
	uint64_t fails = 0;

	for (i = 0; i < vh_ntargets; i ++) {
		printf("STAT\t%s\tcases\t%llu\n", vh_targets[i].name, (unsigned long long)vh_targets[i].cases);
		printf("STAT\t%s\trun\t%llu\n", vh_targets[i].name, (unsigned long long)vh_targets[i].run);
		printf("STAT\t%s\tnontrivial\t%llu\n", vh_targets[i].name, (unsigned long long)vh_targets[i].nontrivial);
		printf("STAT\t%s\tfails\t%llu\n", vh_targets[i].name, (unsigned long long)vh_targets[i].fails);
		printf("STAT\t%s\toutcomes\t%llu\n", vh_targets[i].name, (unsigned long long)vh_targets[i].outcomes);
		fails += vh_targets[i].fails;
	}
	for (i = 0; i < vh_nclauses; i ++) {
		printf("CLAUSE\t%s\t%s\t%llu\n", vh_targets[vh_clauses[i].target].name,
		    vh_clauses[i].clause, (unsigned long long)vh_clauses[i].count);
	}
	printf("DONE\n");
	fflush(stdout);
	return (0);
}

/* Exact-size heap copies: ASan redzones sit directly behind the last byte. */
static inline void *
vh_dup(const void *src, size_t len) {
	void *p = malloc(len ? len : 1);
	if (len)
		memcpy(p, src, len);
	/* For len == 0 the single byte is still poisoned by hand below. */
	return (p);
}

#ifdef VH_HAS_ASAN
void __asan_poison_memory_region(void const volatile *addr, size_t size);
void __asan_unpoison_memory_region(void const volatile *addr, size_t size);
#  define VH_POISON(p, n)	__asan_poison_memory_region((p), (n))
#  define VH_UNPOISON(p, n)	__asan_unpoison_memory_region((p), (n))
#else
#  define VH_POISON(p, n)
#  define VH_UNPOISON(p, n)
#endif

/* A buffer of exactly `cap` usable bytes inside a larger arena: bytes before and
 * after are poisoned (ASan) and filled with a canary that vh_guard_check() verifies,
 * so an out-of-bounds write is seen even where ASan instrumentation is absent
 * (e.g. inside libc's memcpy interceptors it is present; inline asm is not). */
typedef struct vh_guard_s {
	uint8_t *base;
	uint8_t *buf;
	size_t	cap;
} vh_guard_t;
#define VH_GUARD_PAD 64

static inline uint8_t *
vh_guard_alloc(vh_guard_t *g, size_t cap) {
	g->base = (uint8_t *)malloc(cap + 2 * VH_GUARD_PAD);
	g->buf = g->base + VH_GUARD_PAD;
	g->cap = cap;
	memset(g->base, 0xC5, cap + 2 * VH_GUARD_PAD);
	VH_POISON(g->base, VH_GUARD_PAD);
	VH_POISON(g->buf + cap, VH_GUARD_PAD);
	return (g->buf);
}

static inline int
vh_guard_check(vh_guard_t *g) {
	size_t i;
	int bad = 0;
	VH_UNPOISON(g->base, VH_GUARD_PAD);
	VH_UNPOISON(g->buf + g->cap, VH_GUARD_PAD);
	for (i = 0; i < VH_GUARD_PAD; i ++) {
		if (g->base[i] != 0xC5 || g->buf[g->cap + i] != 0xC5)
			bad = 1;
	}
	VH_POISON(g->base, VH_GUARD_PAD);
	VH_POISON(g->buf + g->cap, VH_GUARD_PAD);
	return (bad);
}

static inline void
vh_guard_free(vh_guard_t *g) {
	VH_UNPOISON(g->base, VH_GUARD_PAD);
	VH_UNPOISON(g->buf + g->cap, VH_GUARD_PAD);
	free(g->base);
	g->base = NULL;
}

#endif /* VH_H */
