/*
 * E1 - deviation-bounded schedule and fault exploration of real pthread code.
 *
 * The harness is linked with -Wl,--wrap=... for every call through which the threads
 * synchronise or touch the environment (see sched.c).  Exactly one registered thread runs
 * at a time; every wrapped call is a scheduling point.  The explorer (in the fork-server
 * parent) enumerates all choice sequences whose cost fits the bounds.
 */
#ifndef SCHED_H
#define SCHED_H

#include <stddef.h>
#include <stdint.h>

#define SC_MAX_THREADS	24
#define SC_MAX_POINTS	8192
#define SC_LOG_MAX	(64 * 1024)

/* kinds of choice point -> cost of alternative `alt` out of `nalts` */
#define SC_K_RUN	0	/* running thread could continue: alt0 free, others = preemption */
#define SC_K_YIELD	1	/* running thread yields: alt0 free, middle = free-switch deviation, last (the yielder) = preemption-class */
#define SC_K_BLOCKED	2	/* running thread blocked/finished: alt0 free, others = free-switch deviation */
#define SC_K_ENV	3	/* environment answer: alt0 (default) free, others = fault deviation (preemption class) */

typedef struct sc_point_s {
	uint8_t	kind;
	uint8_t	nalts;
	uint8_t	chosen;
	uint8_t	tid;		/* thread that was running when the choice was made */
	uint16_t tag;		/* index into the tag table (diagnostics) */
	uint16_t alts_mask_lo;	/* enabled thread ids bitmask (low 16) - for determinism comparison */
} sc_point_t;

/* verdict codes */
#define SC_V_OK		0
#define SC_V_ORACLE	1	/* harness oracle clause failed */
#define SC_V_ASAN	2
#define SC_V_DEADLOCK	3
#define SC_V_HORIZON	4	/* step limit exceeded (livelock suspicion) */
#define SC_V_CRASH	5	/* signal */
#define SC_V_TIMEOUT	6	/* wall-clock limit in the parent */
#define SC_V_DIVERGED	7	/* prefix replay saw a different shape: harness error */

typedef struct sc_shared_s {
	/* in */
	uint32_t prefix_len;
	uint8_t	 prefix[SC_MAX_POINTS];
	uint32_t step_limit;
	int	 verbose;
	/* out */
	volatile uint32_t npoints;
	sc_point_t points[SC_MAX_POINTS];
	volatile uint32_t steps;
	volatile int verdict;
	char	 clause[96];
	char	 message[512];
	volatile uint32_t log_len;
	char	 log[SC_LOG_MAX];
	volatile int finished;	/* scenario returned normally */
} sc_shared_t;

extern sc_shared_t *sc_sh;

/* ---- API for scenarios (harness side) ---- */
int	sc_self(void);				/* logical thread id (0 = scenario main) */
void	sc_log(const char *fmt, ...);		/* append to the observation log (part of the outcome) */
void	sc_note(const char *fmt, ...);		/* diagnostics only: NOT part of the outcome */
void	sc_fail(const char *clause, const char *fmt, ...); /* oracle violation: records and ends the execution */
void	sc_point(const char *tag);		/* plain scheduling point (always enabled) */
void	sc_wait_quiescent(void);		/* block until no other thread is enabled (all blocked or finished) */
extern int sc_small_pipes;	/* set before the pool is created: pipes hold one page (128 message packets) */
void	sc_gate_wait(volatile int *flag, const char *tag); /* block until *flag != 0 (set by another thread) */
int	sc_choose(int nalts, const char *tag);	/* environment choice: 0 = default, others cost one deviation */
void	sc_yield(const char *tag);		/* harness-level yield point (same rule as sched_yield) */

/* fault menus: which wrapped calls offer non-default answers right now */
#define SC_F_WRITE	(1u << 0)	/* write(): OK | EAGAIN | EPIPE | EBADF */
#define SC_F_CALLOC	(1u << 1)	/* calloc(): OK | NULL */
#define SC_F_EPOLL_CREATE (1u << 2)
#define SC_F_PIPE2	(1u << 3)
#define SC_F_EPOLL_CTL	(1u << 4)
#define SC_F_TIMERFD	(1u << 5)
#define SC_F_PTHREAD_CREATE (1u << 6)
extern volatile uint32_t sc_fault_mask;
/* k-th call failure (deterministic, not a choice): fail the k-th call (1-based) of the class; 0 = off */
extern volatile uint32_t sc_fail_kth_class;
extern volatile uint32_t sc_fail_kth;
extern uint32_t sc_calls_seen[8];	/* per class call counters (index = bit number) */

/* resource accounting (pool-owned allocations made through the wrapped calloc) */
int	sc_live_allocs(void);
int	sc_threads_unjoined(void);
int	sc_join_if_unjoined(pthread_t pt);
int	sc_open_fds(int *fds, int max);	/* snapshot of /proc/self/fd */
int	sc_wrapped_mutex_locked_count(void);

/* scenario table provided by the harness */
typedef struct sc_scenario_s {
	const char *name;
	void	(*fn)(int arg);
	int	arg;
} sc_scenario_t;
extern const sc_scenario_t sc_scenarios[];
extern const int sc_nscenarios;

int	sc_main(int argc, char **argv);

/* source hook used by liblcb when built with -DLIBLCB_VERIF */
void	lcb_verif_point(const char *tag);

#endif
