/*
 * Free-running implementation of the sched.h harness API: NO scheduler, real OS threads run as
 * the kernel pleases.  Used only for the ThreadSanitizer pass (the cooperative scheduler's
 * hand-offs are happens-before edges that would blind the race detector).  Scenario oracles are
 * not the point here - only the race reports are collected - but sc_fail still prints.
 */
#define _GNU_SOURCE
#include <errno.h>
#include <pthread.h>
#include <sched.h>
#include <stdarg.h>
#include <stdio.h>
#include <stdlib.h>
#include <string.h>
#include <time.h>
#include <unistd.h>
#include <dirent.h>
#include <sys/mman.h>
#include "sched.h"

sc_shared_t *sc_sh = NULL;
volatile uint32_t sc_fault_mask = 0;
volatile uint32_t sc_fail_kth_class = 0;
volatile uint32_t sc_fail_kth = 0;
uint32_t sc_calls_seen[8];
static int fr_verbose = 0;

int sc_self(void) { return ((int)(pthread_self() % 1000)); }

void
sc_log(const char *fmt, ...) {
	va_list ap;
	if (!fr_verbose) return;
	va_start(ap, fmt); vfprintf(stderr, fmt, ap); va_end(ap); fputc('\n', stderr);
}

void sc_note(const char *fmt, ...) { (void)fmt; }

void
sc_fail(const char *clause, const char *fmt, ...) {
	va_list ap;
	/* Without the scheduler the scenario's notion of "quiescent" is only approximated by
	 * sleeping, so oracle verdicts of this pass are NOT reported as violations. */
	if (fr_verbose) {
		fprintf(stderr, "[freerun] oracle clause %s: ", clause);
		va_start(ap, fmt); vfprintf(stderr, fmt, ap); va_end(ap); fputc('\n', stderr);
	}
	_exit(0);
}

void sc_point(const char *tag) { (void)tag; }
void lcb_verif_point(const char *tag) { (void)tag; }
void sc_yield(const char *tag) { (void)tag; sched_yield(); }
int sc_choose(int nalts, const char *tag) { (void)nalts; (void)tag; return (0); }

void
sc_wait_quiescent(void) {
	struct timespec ts = { 0, 30 * 1000 * 1000 };
	nanosleep(&ts, NULL);
}

void
sc_gate_wait(volatile int *flag, const char *tag) {
	struct timespec ts = { 0, 1000 * 1000 };
	(void)tag;
	while (0 == __atomic_load_n(flag, __ATOMIC_ACQUIRE))
		nanosleep(&ts, NULL);
}

int sc_live_allocs(void) { return (0); }
int sc_threads_unjoined(void) { return (0); }
int sc_wrapped_mutex_locked_count(void) { return (0); }

int
sc_open_fds(int *fds, int max) {
	DIR *d = opendir("/proc/self/fd");
	struct dirent *de;
	int n = 0, dfd, fd;
	if (NULL == d) return (-1);
	dfd = dirfd(d);
	while (NULL != (de = readdir(d))) {
		if (de->d_name[0] < '0' || de->d_name[0] > '9') continue;
		fd = atoi(de->d_name);
		if (fd == dfd) continue;
		if (n < max) fds[n ++] = fd;
	}
	closedir(d);
	return (n);
}

int
sc_main(int argc, char **argv) {
	int i, k;
	const char *scen = NULL;
	const sc_scenario_t *sc = NULL;

	for (i = 1; i < argc; i ++) {
		if (0 == strcmp(argv[i], "--scenario") && i + 1 < argc) scen = argv[++ i];
		else if (0 == strcmp(argv[i], "--verbose")) fr_verbose = 1;
		else if (0 == strcmp(argv[i], "--list")) {
			for (k = 0; k < sc_nscenarios; k ++) printf("%s\n", sc_scenarios[k].name);
			return (0);
		}
	}
	for (k = 0; k < sc_nscenarios; k ++) {
		if (NULL != scen && 0 == strcmp(scen, sc_scenarios[k].name)) sc = &sc_scenarios[k];
	}
	if (NULL == sc) { fprintf(stderr, "unknown scenario\n"); return (2); }
	sc_sh = (sc_shared_t *)calloc(1, sizeof(sc_shared_t));
	sc->fn(sc->arg);
	return (0);
}
