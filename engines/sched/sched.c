/*
 * E1 runtime: cooperative scheduler over wrapped libc calls + fork-server explorer.
 * See sched.h and DESIGN.md section 3.
 */
#define _GNU_SOURCE
#include <errno.h>
#include <fcntl.h>
#include <dirent.h>
#include <poll.h>
#include <pthread.h>
#include <sched.h>
#include <signal.h>
#include <stdarg.h>
#include <stdio.h>
#include <stdlib.h>
#include <string.h>
#include <time.h>
#include <unistd.h>
#include <linux/futex.h>
#include <sys/epoll.h>
#include <sys/mman.h>
#include <sys/syscall.h>
#include <sys/timerfd.h>
#include <sys/wait.h>
#include "sched.h"

sc_shared_t *sc_sh = NULL;
volatile uint32_t sc_fault_mask = 0;
volatile uint32_t sc_fail_kth_class = 0;
volatile uint32_t sc_fail_kth = 0;
uint32_t sc_calls_seen[8];

/* ------------------------------------------------------------------ real functions */
int	__real_pthread_create(pthread_t *, const pthread_attr_t *, void *(*)(void *), void *);
int	__real_pthread_join(pthread_t, void **);
int	__real_pthread_mutex_lock(pthread_mutex_t *);
int	__real_pthread_mutex_unlock(pthread_mutex_t *);
int	__real_pthread_mutex_init(pthread_mutex_t *, const pthread_mutexattr_t *);
int	__real_pthread_mutex_destroy(pthread_mutex_t *);
int	__real_sched_yield(void);
int	__real_nanosleep(const struct timespec *, struct timespec *);
int	__real_epoll_wait(int, struct epoll_event *, int, int);
int	__real_epoll_ctl(int, int, int, struct epoll_event *);
int	__real_epoll_create1(int);
int	__real_pipe2(int[2], int);
ssize_t	__real_read(int, void *, size_t);
ssize_t	__real_write(int, const void *, size_t);
int	__real_close(int);
int	__real_timerfd_create(int, int);
int	__real_timerfd_settime(int, int, const struct itimerspec *, struct itimerspec *);
void	*__real_calloc(size_t, size_t);
void	__real_free(void *);
long	__real_sysconf(int);

int	sc_small_pipes = 0;	/* harness option: every pipe the code under test creates holds one page */

/* ------------------------------------------------------------------ threads */
#define OP_NONE		0
#define OP_START	1
#define OP_GENERIC	2
#define OP_LOCK		3
#define OP_JOIN		4
#define OP_YIELD	5
#define OP_EPOLL	6
#define OP_QUIESCENT	7
#define OP_GATE		8
#define OP_WRITE_BLK	9	/* write() on a descriptor without O_NONBLOCK: enabled while the kernel says it is writable */

typedef struct sc_thr_s {
	int	used, finished, joined;
	pthread_t pt;
	volatile int wake;
	int	op;
	void	*obj;
	int	iarg;
	const char *tag;
	void	*(*fn)(void *);
	void	*arg;
} sc_thr_t;

static sc_thr_t sc_thr[SC_MAX_THREADS];
static int sc_nthr = 0;
static __thread int sc_my_id = -1;
static int sc_active = 0;	/* scheduler on (inside a child execution) */
static int sc_verbose = 0;

typedef struct sc_mtx_s { pthread_mutex_t *m; int owner; int count; } sc_mtx_t;
static sc_mtx_t sc_mtx[64];
static int sc_nmtx = 0;

#define SC_MAX_ALLOCS 4096
static void *sc_allocs[SC_MAX_ALLOCS];
static int sc_nallocs = 0;

static void sc_end(int verdict, const char *clause, const char *fmt, ...) __attribute__((noreturn));

static void
futex_wait_on(volatile int *w) {
	while (0 == __atomic_load_n(w, __ATOMIC_ACQUIRE)) {
		syscall(SYS_futex, w, FUTEX_WAIT, 0, NULL, NULL, 0);
	}
	__atomic_store_n(w, 0, __ATOMIC_RELEASE);
}

static void
futex_wake_on(volatile int *w) {
	__atomic_store_n(w, 1, __ATOMIC_RELEASE);
	syscall(SYS_futex, w, FUTEX_WAKE, 1, NULL, NULL, 0);
}

int
sc_self(void) {
	return (sc_my_id);
}

static uint16_t
tag_hash(const char *s) {
	uint32_t h = 2166136261u;
	if (NULL == s)
		return (0);
	while (*s) { h ^= (uint8_t)*s ++; h *= 16777619u; }
	return ((uint16_t)(h ^ (h >> 16)));
}

static void
sc_vend(int verdict, const char *clause, const char *fmt, va_list ap) {
	if (SC_V_OK == sc_sh->verdict || SC_V_OK == verdict) {
		sc_sh->verdict = verdict;
		strncpy(sc_sh->clause, clause ? clause : "", sizeof(sc_sh->clause) - 1);
		vsnprintf(sc_sh->message, sizeof(sc_sh->message), fmt ? fmt : "", ap);
	}
	if (sc_verbose)
		fprintf(stderr, "[end] verdict=%d clause=%s msg=%s\n", sc_sh->verdict, sc_sh->clause, sc_sh->message);
	_exit(0);
}

static void
sc_end(int verdict, const char *clause, const char *fmt, ...) {
	va_list ap;
	va_start(ap, fmt);
	sc_vend(verdict, clause, fmt, ap);
	va_end(ap);
	_exit(0);
}

void
sc_fail(const char *clause, const char *fmt, ...) {
	va_list ap;
	va_start(ap, fmt);
	sc_vend(SC_V_ORACLE, clause, fmt, ap);
	va_end(ap);
}

void
sc_log(const char *fmt, ...) {
	va_list ap;
	char b[512];
	int n, m;
	uint32_t off;

	n = snprintf(b, sizeof(b), "T%d ", sc_my_id);
	va_start(ap, fmt);
	m = vsnprintf(b + n, sizeof(b) - (size_t)n - 2, fmt, ap);
	va_end(ap);
	if (m < 0) m = 0;
	n += (m > (int)sizeof(b) - n - 2) ? (int)sizeof(b) - n - 2 : m;
	b[n ++] = '\n';
	off = sc_sh->log_len;
	if (off + (uint32_t)n < SC_LOG_MAX) {
		memcpy(sc_sh->log + off, b, (size_t)n);
		sc_sh->log_len = off + (uint32_t)n;
	}
	if (sc_verbose) {
		b[n] = 0;
		fprintf(stderr, "[log] %s", b);
	}
}

void
sc_note(const char *fmt, ...) {
	va_list ap;
	if (!sc_verbose)
		return;
	va_start(ap, fmt);
	fprintf(stderr, "[note T%d] ", sc_my_id);
	vfprintf(stderr, fmt, ap);
	fprintf(stderr, "\n");
	va_end(ap);
}

/* ------------------------------------------------------------------ enabledness */
static sc_mtx_t *
mtx_find(pthread_mutex_t *m, int create) {
	int i;
	for (i = 0; i < sc_nmtx; i ++) {
		if (sc_mtx[i].m == m)
			return (&sc_mtx[i]);
	}
	if (!create)
		return (NULL);
	for (i = 0; i < sc_nmtx; i ++) {
		if (NULL == sc_mtx[i].m)
			break;
	}
	if (i == sc_nmtx) {
		if (sc_nmtx == 64)
			sc_end(SC_V_DIVERGED, "harness", "too many mutexes");
		sc_nmtx ++;
	}
	sc_mtx[i].m = m;
	sc_mtx[i].owner = -1;
	sc_mtx[i].count = 0;
	return (&sc_mtx[i]);
}

static int
thr_enabled(int t, int others_enabled) {
	sc_thr_t *th = &sc_thr[t];
	sc_mtx_t *mx;
	struct pollfd pfd;

	if (!th->used || th->finished)
		return (0);
	switch (th->op) {
	case OP_LOCK:
		mx = mtx_find((pthread_mutex_t *)th->obj, 0);
		return (NULL == mx || mx->owner < 0 || mx->owner == t);
	case OP_JOIN:
		return (th->iarg < 0 || sc_thr[th->iarg].finished);
	case OP_EPOLL:
		if (0 <= th->iarg) /* finite timeout: may always return */
			return (1);
		pfd.fd = (int)(intptr_t)th->obj;
		pfd.events = POLLIN;
		pfd.revents = 0;
		return (poll(&pfd, 1, 0) > 0 && 0 != (pfd.revents & (POLLIN | POLLERR | POLLHUP | POLLNVAL)));
	case OP_QUIESCENT:
		return (!others_enabled);
	case OP_GATE:
		return (0 != *(volatile int *)th->obj);
	case OP_WRITE_BLK:
		pfd.fd = th->iarg;
		pfd.events = POLLOUT;
		pfd.revents = 0;
		return (poll(&pfd, 1, 0) > 0);
	default:
		return (1);
	}
}

static int
next_choice(int kind, int nalts, int tid, const char *tag, uint16_t mask) {
	uint32_t idx = sc_sh->npoints;
	int c = 0;

	if (idx >= SC_MAX_POINTS)
		sc_end(SC_V_HORIZON, "horizon", "more than %d choice points", SC_MAX_POINTS);
	if (idx < sc_sh->prefix_len) {
		c = sc_sh->prefix[idx];
		if (c >= nalts)
			sc_end(SC_V_DIVERGED, "diverged", "prefix choice %d out of range %d at point %u (%s)", c, nalts, idx, tag ? tag : "");
	}
	sc_sh->points[idx].kind = (uint8_t)kind;
	sc_sh->points[idx].nalts = (uint8_t)nalts;
	sc_sh->points[idx].chosen = (uint8_t)c;
	sc_sh->points[idx].tid = (uint8_t)tid;
	sc_sh->points[idx].tag = tag_hash(tag);
	sc_sh->points[idx].alts_mask_lo = mask;
	sc_sh->npoints = idx + 1;
	return (c);
}

/* The running thread `me` has published its pending op; pick who runs next. */
static void
sc_schedule(int me) {
	int list[SC_MAX_THREADS], n = 0, t, others = 0, me_en, kind, c, next;
	int en[SC_MAX_THREADS];
	uint16_t mask = 0;

	sc_sh->steps ++;
	if (sc_sh->steps > sc_sh->step_limit)
		sc_end(SC_V_HORIZON, "horizon", "step limit %u exceeded (livelock?)", sc_sh->step_limit);
	/* Pass 1: everything except QUIESCENT waiters. */
	for (t = 0; t < sc_nthr; t ++) {
		en[t] = 0;
		if (!sc_thr[t].used || sc_thr[t].finished || OP_QUIESCENT == sc_thr[t].op)
			continue;
		en[t] = thr_enabled(t, 0);
		if (en[t])
			others ++;
	}
	for (t = 0; t < sc_nthr; t ++) {
		if (sc_thr[t].used && !sc_thr[t].finished && OP_QUIESCENT == sc_thr[t].op)
			en[t] = (0 == others);
	}
	me_en = (sc_thr[me].finished ? 0 : en[me]);
	if (me_en && OP_YIELD != sc_thr[me].op) {
		list[n ++] = me;
		kind = SC_K_RUN;
	} else if (me_en) {
		kind = SC_K_YIELD;
	} else {
		kind = SC_K_BLOCKED;
	}
	for (t = 0; t < sc_nthr; t ++) {
		if (t != me && en[t])
			list[n ++] = t;
	}
	if (me_en && OP_YIELD == sc_thr[me].op)
		list[n ++] = me;
	for (t = 0; t < n; t ++)
		mask |= (uint16_t)(1u << (list[t] & 15));
	if (0 == n) {
		int alive = 0;
		for (t = 0; t < sc_nthr; t ++) {
			if (sc_thr[t].used && !sc_thr[t].finished)
				alive ++;
		}
		if (0 == alive)
			return; /* everybody finished: the process ends through thread 0 */
		{
			char buf[400]; int o = 0;
			for (t = 0; t < sc_nthr && o < 360; t ++) {
				if (sc_thr[t].used && !sc_thr[t].finished)
					o += snprintf(buf + o, sizeof(buf) - (size_t)o, " T%d:%s", t, sc_thr[t].tag ? sc_thr[t].tag : "?");
			}
			sc_end(SC_V_DEADLOCK, "deadlock", "no enabled thread; blocked:%s", buf);
		}
	}
	c = 0;
	if (n > 1)
		c = next_choice(kind, n, me, sc_thr[me].tag, mask);
	next = list[c];
	if (sc_verbose > 1)
		fprintf(stderr, "[sched] T%d at %s -> T%d (%d alts, kind %d)\n", me, sc_thr[me].tag ? sc_thr[me].tag : "?", next, n, kind);
	if (next != me) {
		futex_wake_on(&sc_thr[next].wake);
		if (!sc_thr[me].finished)
			futex_wait_on(&sc_thr[me].wake);
	}
}

static void
sc_point_ex(int op, void *obj, int iarg, const char *tag) {
	int me = sc_my_id;

	if (!sc_active || me < 0)
		return;
	sc_thr[me].op = op;
	sc_thr[me].obj = obj;
	sc_thr[me].iarg = iarg;
	sc_thr[me].tag = tag;
	sc_schedule(me);
	sc_thr[me].op = OP_NONE;
}

void
sc_point(const char *tag) {
	sc_point_ex(OP_GENERIC, NULL, 0, tag);
}

void
lcb_verif_point(const char *tag) {
	sc_point_ex(OP_GENERIC, NULL, 0, tag);
}

void
sc_yield(const char *tag) {
	sc_point_ex(OP_YIELD, NULL, 0, tag);
}

void
sc_wait_quiescent(void) {
	sc_point_ex(OP_QUIESCENT, NULL, 0, "wait_quiescent");
}

/* Harness-level blocking: the caller is not enabled until *flag becomes non-zero. */
void
sc_gate_wait(volatile int *flag, const char *tag) {
	sc_point_ex(OP_GATE, (void *)flag, 0, tag);
}

int
sc_choose(int nalts, const char *tag) {
	if (!sc_active || sc_my_id < 0 || nalts < 2)
		return (0);
	return (next_choice(SC_K_ENV, nalts, sc_my_id, tag, 0));
}

/* deterministic k-th failure of a call class (bit index) */
static int
kth_fail(int bit) {
	if (!sc_active || sc_my_id < 0)
		return (0);
	sc_calls_seen[bit] ++;
	return (sc_fail_kth_class == (1u << bit) && sc_fail_kth == sc_calls_seen[bit]);
}

/* ------------------------------------------------------------------ wrappers */
static void *
sc_trampoline(void *arg) {
	int me = (int)(intptr_t)arg;
	void *ret;

	sc_my_id = me;
	futex_wait_on(&sc_thr[me].wake);	/* parked at OP_START until chosen */
	sc_thr[me].op = OP_NONE;
	ret = sc_thr[me].fn(sc_thr[me].arg);
	sc_thr[me].finished = 1;
	sc_thr[me].tag = "thread-exit";
	sc_schedule(me);
	return (ret);
}

int
__wrap_pthread_create(pthread_t *pt, const pthread_attr_t *attr, void *(*fn)(void *), void *arg) {
	int id, rc;

	if (!sc_active || sc_my_id < 0)
		return (__real_pthread_create(pt, attr, fn, arg));
	sc_point_ex(OP_GENERIC, NULL, 0, "pthread_create");
	if (kth_fail(6))
		return (EAGAIN);
	if (0 != (sc_fault_mask & SC_F_PTHREAD_CREATE) && 0 != sc_choose(2, "pthread_create:fault")) {
		/* glibc stores the would-be handle into *thread BEFORE it tries to start the thread and
		 * leaves it there when that fails: do the same, so that code which later trusts the
		 * handle is seen. */
		*pt = (pthread_t)0xdead0000beef00ul;
		return (EPERM); /* a non-EAGAIN failure: no retry loop */
	}
	if (sc_nthr >= SC_MAX_THREADS)
		sc_end(SC_V_DIVERGED, "harness", "too many threads");
	id = sc_nthr ++;
	memset(&sc_thr[id], 0, sizeof(sc_thr[id]));
	sc_thr[id].used = 1;
	sc_thr[id].op = OP_START;
	sc_thr[id].tag = "thread-start";
	sc_thr[id].fn = fn;
	sc_thr[id].arg = arg;
	rc = __real_pthread_create(&sc_thr[id].pt, attr, sc_trampoline, (void *)(intptr_t)id);
	if (0 != rc) {
		sc_thr[id].used = 0;
		sc_nthr --;
		return (rc);
	}
	*pt = sc_thr[id].pt;
	/* the new thread exists: it may run before the creator's next plain access ("store the state after the create") */
	sc_point_ex(OP_GENERIC, NULL, 0, "pthread_create.after");
	return (0);
}

int
__wrap_pthread_join(pthread_t pt, void **ret) {
	int t, target = -1, rc;

	if (!sc_active || sc_my_id < 0)
		return (__real_pthread_join(pt, ret));
	for (t = 0; t < sc_nthr; t ++) {
		if (sc_thr[t].used && t != 0 && pthread_equal(sc_thr[t].pt, pt)) {
			target = t;
			break;
		}
	}
	if (target < 0) {
		/* Joining something that is not a live created thread (e.g. a zeroed pthread_t) is
		 * undefined behaviour in glibc (it dereferences the id). */
		sc_point_ex(OP_GENERIC, NULL, 0, "pthread_join(invalid)");
		sc_end(SC_V_ORACLE, "pthread_join-invalid-id", "pthread_join called with an id that names no created thread (pt=%#lx)", (unsigned long)pt);
	}
	if (target == sc_my_id) {	/* glibc detects a thread joining itself */
		sc_point_ex(OP_GENERIC, NULL, 0, "pthread_join(self)");
		return (EDEADLK);
	}
	if (sc_thr[target].joined) {
		sc_point_ex(OP_GENERIC, NULL, 0, "pthread_join(again)");
		sc_end(SC_V_ORACLE, "pthread_join-twice", "thread T%d joined twice", target);
	}
	sc_point_ex(OP_JOIN, NULL, target, "pthread_join");
	rc = __real_pthread_join(pt, ret);
	sc_thr[target].joined = 1;
	return (rc);
}

int
__wrap_pthread_mutex_init(pthread_mutex_t *m, const pthread_mutexattr_t *a) {
	sc_mtx_t *mx;
	if (sc_active && sc_my_id >= 0) {
		mx = mtx_find(m, 1);
		mx->owner = -1;
		mx->count = 0;
	}
	return (__real_pthread_mutex_init(m, a));
}

int
__wrap_pthread_mutex_destroy(pthread_mutex_t *m) {
	sc_mtx_t *mx;
	if (sc_active && sc_my_id >= 0) {
		sc_point_ex(OP_GENERIC, NULL, 0, "mutex_destroy");
		mx = mtx_find(m, 0);
		if (NULL != mx) {
			if (mx->owner >= 0)
				sc_end(SC_V_ORACLE, "mutex-destroyed-while-locked", "mutex destroyed while T%d holds it", mx->owner);
			mx->m = NULL;
		}
	}
	return (__real_pthread_mutex_destroy(m));
}

int
__wrap_pthread_mutex_lock(pthread_mutex_t *m) {
	sc_mtx_t *mx;
	int rc;

	if (!sc_active || sc_my_id < 0)
		return (__real_pthread_mutex_lock(m));
	sc_point_ex(OP_LOCK, m, 0, "mutex_lock");
	rc = __real_pthread_mutex_lock(m);
	mx = mtx_find(m, 1);
	mx->owner = sc_my_id;
	mx->count ++;
	return (rc);
}

int
__wrap_pthread_mutex_unlock(pthread_mutex_t *m) {
	sc_mtx_t *mx;
	int rc;

	if (!sc_active || sc_my_id < 0)
		return (__real_pthread_mutex_unlock(m));
	/* Still inside the critical section: another thread that reads the protected data WITHOUT the
	 * lock (an "optimised" fast path) can run here and see the half-finished update. */
	sc_point_ex(OP_GENERIC, NULL, 0, "mutex_unlock.before");
	rc = __real_pthread_mutex_unlock(m);
	mx = mtx_find(m, 0);
	if (NULL != mx && mx->owner == sc_my_id) {
		if (0 == -- mx->count)
			mx->owner = -1;
	}
	sc_point_ex(OP_GENERIC, NULL, 0, "mutex_unlock.after");
	return (rc);
}

int
__wrap_sched_yield(void) {
	if (!sc_active || sc_my_id < 0)
		return (__real_sched_yield());
	sc_point_ex(OP_YIELD, NULL, 0, "sched_yield");
	return (0);
}

int
__wrap_nanosleep(const struct timespec *rq, struct timespec *rm) {
	if (!sc_active || sc_my_id < 0)
		return (__real_nanosleep(rq, rm));
	sc_point_ex(OP_YIELD, NULL, 0, "nanosleep"); /* logical time: a sleep is a yield */
	return (0);
}

int
__wrap_epoll_wait(int epfd, struct epoll_event *ev, int maxev, int timeout) {
	if (!sc_active || sc_my_id < 0)
		return (__real_epoll_wait(epfd, ev, maxev, timeout));
	sc_point_ex(OP_EPOLL, (void *)(intptr_t)epfd, timeout, (timeout < 0) ? "epoll_wait" : "epoll_wait(0)");
	return (__real_epoll_wait(epfd, ev, maxev, 0));
}

int
__wrap_epoll_ctl(int epfd, int op, int fd, struct epoll_event *ev) {
	if (sc_active && sc_my_id >= 0) {
		sc_point_ex(OP_GENERIC, NULL, 0, "epoll_ctl");
		if (kth_fail(4) ||
		    (0 != (sc_fault_mask & SC_F_EPOLL_CTL) && 0 != sc_choose(2, "epoll_ctl:fault"))) {
			errno = ENOMEM;
			return (-1);
		}
	}
	{
		int r = __real_epoll_ctl(epfd, op, fd, ev);
		int e = errno;
		/* the kernel registration changed: the owning loop may see it before the caller's next store */
		if (sc_active && sc_my_id >= 0)
			sc_point_ex(OP_GENERIC, NULL, 0, "epoll_ctl.after");
		errno = e;
		return (r);
	}
}

int
__wrap_epoll_create1(int flags) {
	if (sc_active && sc_my_id >= 0) {
		sc_point_ex(OP_GENERIC, NULL, 0, "epoll_create1");
		if (kth_fail(2) ||
		    (0 != (sc_fault_mask & SC_F_EPOLL_CREATE) && 0 != sc_choose(2, "epoll_create1:fault"))) {
			errno = EMFILE;
			return (-1);
		}
	}
	return (__real_epoll_create1(flags));
}

int
__wrap_pipe2(int fds[2], int flags) {
	if (sc_active && sc_my_id >= 0) {
		sc_point_ex(OP_GENERIC, NULL, 0, "pipe2");
		if (kth_fail(3) ||
		    (0 != (sc_fault_mask & SC_F_PIPE2) && 0 != sc_choose(2, "pipe2:fault"))) {
			errno = EMFILE;
			return (-1);
		}
	}
	{
		int rc = __real_pipe2(fds, flags);
		if (0 == rc && sc_small_pipes)	/* one page: a queue of 32-byte packets is full after 128 */
			fcntl(fds[1], F_SETPIPE_SZ, 4096);
		return (rc);
	}
}

int
__wrap_timerfd_create(int clk, int flags) {
	if (sc_active && sc_my_id >= 0) {
		sc_point_ex(OP_GENERIC, NULL, 0, "timerfd_create");
		if (kth_fail(5) ||
		    (0 != (sc_fault_mask & SC_F_TIMERFD) && 0 != sc_choose(2, "timerfd_create:fault"))) {
			errno = EMFILE;
			return (-1);
		}
	}
	return (__real_timerfd_create(clk, flags));
}

int
__wrap_timerfd_settime(int fd, int flags, const struct itimerspec *n, struct itimerspec *o) {
	if (sc_active && sc_my_id >= 0)
		sc_point_ex(OP_GENERIC, NULL, 0, "timerfd_settime");
	return (__real_timerfd_settime(fd, flags, n, o));
}

ssize_t
__wrap_read(int fd, void *buf, size_t n) {
	if (sc_active && sc_my_id >= 0)
		sc_point_ex(OP_GENERIC, NULL, 0, "read");
	return (__real_read(fd, buf, n));
}

ssize_t
__wrap_write(int fd, const void *buf, size_t n) {
	int c;
	static const int errs[] = { 0, EAGAIN, EPIPE, EBADF };

	if (sc_active && sc_my_id >= 0) {
		int fl = fcntl(fd, F_GETFL);
		if (fl >= 0 && 0 == (fl & O_NONBLOCK))	/* a blocking descriptor: the call waits for room; nobody making room = deadlock */
			sc_point_ex(OP_WRITE_BLK, NULL, fd, "write(blocking)");
		else
			sc_point_ex(OP_GENERIC, NULL, 0, "write");
		if (kth_fail(0)) {
			errno = EAGAIN;
			return (-1);
		}
		if (0 != (sc_fault_mask & SC_F_WRITE)) {
			c = sc_choose(4, "write:fault");
			if (0 != c) {
				errno = errs[c];
				return (-1);
			}
		}
	}
	{
		ssize_t r = __real_write(fd, buf, n);
		int e = errno;
		/* the message is published now: let others run before the writer's next plain access */
		if (sc_active && sc_my_id >= 0)
			sc_point_ex(OP_GENERIC, NULL, 0, "write.after");
		errno = e;
		return (r);
	}
}

int
__wrap_close(int fd) {
	if (sc_active && sc_my_id >= 0)
		sc_point_ex(OP_GENERIC, NULL, 0, "close");
	return (__real_close(fd));
}

void *
__wrap_calloc(size_t n, size_t sz) {
	void *p;

	if (sc_active && sc_my_id >= 0) {
		if (kth_fail(1) ||
		    (0 != (sc_fault_mask & SC_F_CALLOC) && 0 != sc_choose(2, "calloc:fault"))) {
			errno = ENOMEM;
			return (NULL);
		}
	}
	p = __real_calloc(n, sz);
	if (sc_active && sc_my_id >= 0 && NULL != p && sc_nallocs < SC_MAX_ALLOCS)
		sc_allocs[sc_nallocs ++] = p;
	return (p);
}

void
__wrap_free(void *p) {
	int i;
	if (sc_active && sc_my_id >= 0 && NULL != p) {
		for (i = 0; i < sc_nallocs; i ++) {
			if (sc_allocs[i] == p) {
				sc_allocs[i] = sc_allocs[-- sc_nallocs];
				break;
			}
		}
	}
	__real_free(p);
}

void __wrap_syslog(int pri, const char *fmt, ...) { (void)pri; (void)fmt; }
void __wrap_openlog(const char *id, int opt, int fac) { (void)id; (void)opt; (void)fac; }
int  __wrap_pthread_setaffinity_np(pthread_t t, size_t n, const cpu_set_t *cs) { (void)t; (void)n; (void)cs; return (0); }
int  __wrap_pthread_setname_np(pthread_t t, const char *name) { (void)t; (void)name; return (0); }

long
__wrap_sysconf(int name) {
	if (_SC_NPROCESSORS_CONF == name || _SC_NPROCESSORS_ONLN == name)
		return (4);
	return (__real_sysconf(name));
}

int sc_live_allocs(void) { return (sc_nallocs); }

int
sc_threads_unjoined(void) {
	int t, n = 0;
	for (t = 1; t < sc_nthr; t ++) {
		if (sc_thr[t].used && !sc_thr[t].joined)
			n ++;
	}
	return (n);
}

/* Join a thread of the scenario's own unless somebody (the code under test) has joined it already. */
int
sc_join_if_unjoined(pthread_t pt) {
	int t;
	for (t = 1; t < sc_nthr; t ++) {
		if (sc_thr[t].used && pthread_equal(sc_thr[t].pt, pt)) {
			if (sc_thr[t].joined)
				return (0);
			return (__wrap_pthread_join(pt, NULL));
		}
	}
	return (ESRCH);
}

int
sc_wrapped_mutex_locked_count(void) {
	int i, n = 0;
	for (i = 0; i < sc_nmtx; i ++) {
		if (NULL != sc_mtx[i].m && sc_mtx[i].owner >= 0)
			n ++;
	}
	return (n);
}

int
sc_open_fds(int *fds, int max) {
	DIR *d = opendir("/proc/self/fd");
	struct dirent *de;
	int n = 0, dfd, fd, i, j, t;

	if (NULL == d)
		return (-1);
	dfd = dirfd(d);
	while (NULL != (de = readdir(d))) {
		if (de->d_name[0] < '0' || de->d_name[0] > '9')
			continue;
		fd = atoi(de->d_name);
		if (fd == dfd)
			continue;
		if (n < max)
			fds[n ++] = fd;
	}
	closedir(d);
	for (i = 1; i < n; i ++) { /* insertion sort */
		t = fds[i];
		for (j = i; j > 0 && fds[j - 1] > t; j --)
			fds[j] = fds[j - 1];
		fds[j] = t;
	}
	return (n);
}

/* ------------------------------------------------------------------ ASan hook */
#if defined(__SANITIZE_ADDRESS__)
#  define SC_HAS_ASAN 1
#elif defined(__has_feature)
#  if __has_feature(address_sanitizer)
#    define SC_HAS_ASAN 1
#  endif
#endif
#ifdef SC_HAS_ASAN
void __asan_set_error_report_callback(void (*cb)(const char *));
const char *__asan_default_options(void);
const char *
__asan_default_options(void) {
	return ("halt_on_error=0:detect_leaks=0:detect_stack_use_after_return=1:print_summary=0:"
	    "symbolize=0:quarantine_size_mb=8:log_path=/dev/null");
}
static const char *sc_asan_log_path = NULL;
static void
sc_asan_cb(const char *report) {
	char kind[64] = "unknown", clause[96], where[200] = "";
	const char *p, *rw = "";
	size_t i;

	p = strstr(report, "AddressSanitizer: ");
	if (NULL != p) {
		p += 18;
		for (i = 0; i + 1 < sizeof(kind) && p[i] && p[i] != ' ' && p[i] != '\n' && p[i] != ':'; i ++)
			kind[i] = p[i];
		kind[i] = 0;
	}
	if (NULL != strstr(report, "WRITE of size"))
		rw = "WRITE";
	else if (NULL != strstr(report, "READ of size"))
		rw = "READ";
	p = strstr(report, "    #0 ");
	if (NULL != p) {
		for (i = 0; i + 1 < sizeof(where) && p[i] && p[i] != '\n'; i ++)
			where[i] = p[i];
		where[i] = 0;
	}
	snprintf(clause, sizeof(clause), "asan:%s:%s", kind, rw);
	if (sc_verbose)
		fprintf(stderr, "%s\n", report);
	sc_end(SC_V_ASAN, clause, "T%d %s", sc_my_id, where);
}
#endif

/* ================================================================== explorer (parent) */
typedef struct ex_trace_s {
	uint32_t npoints;
	sc_point_t *points;
} ex_trace_t;

static int ex_bound_p = 2, ex_bound_f = 1000000;
static int ex_shard = 0, ex_nshards = 1;
static int ex_split_depth = 2;
static const sc_scenario_t *ex_sc = NULL;
static uint64_t ex_execs = 0, ex_owned = 0, ex_points = 0, ex_steps = 0, ex_maxpoints = 0, ex_fail_execs = 0;
static uint64_t ex_hist_p[16];
static uint64_t ex_retried_timeouts = 0;
static double ex_deadline = 0;
static int ex_cut = 0;
static uint64_t ex_max_execs = 0;
static uint64_t ex_node_counter = 0; /* counter of nodes at split depth */

#define EX_OUT_TBL (1u << 16)
static uint64_t ex_out_tbl[EX_OUT_TBL];
static uint64_t ex_outcomes = 0;

typedef struct ex_viol_s {
	char clause[96];
	uint64_t count;
	int best_cost;
	uint32_t best_len;
	uint8_t *best_prefix;
	char message[512];
} ex_viol_t;
static ex_viol_t ex_viols[64];
static int ex_nviols = 0;

static double
now_s(void) {
	struct timespec ts;
	clock_gettime(CLOCK_MONOTONIC, &ts);
	return ((double)ts.tv_sec + (double)ts.tv_nsec / 1e9);
}

static void
alt_cost(int kind, int nalts, int alt, int *cp, int *cf) {
	*cp = 0; *cf = 0;
	if (0 == alt)
		return;
	switch (kind) {
	case SC_K_RUN: *cp = 1; break;
	case SC_K_ENV: *cp = 1; break;
	case SC_K_BLOCKED: *cf = 1; break;
	case SC_K_YIELD:
		if (alt == nalts - 1) *cp = 1; else *cf = 1;
		break;
	}
}

static void
child_run(const uint8_t *prefix, uint32_t plen, int verbose) {
	sc_sh->prefix_len = plen;
	memcpy(sc_sh->prefix, prefix, plen);
	sc_sh->npoints = 0;
	sc_sh->steps = 0;
	sc_sh->verdict = SC_V_OK;
	sc_sh->clause[0] = 0;
	sc_sh->message[0] = 0;
	sc_sh->log_len = 0;
	sc_sh->finished = 0;
	sc_sh->verbose = verbose;
}

static double ex_time_limit = 10.0;

static void
exec_one(const uint8_t *prefix, uint32_t plen, int verbose) {
	pid_t pid;
	int status = 0;
	sigset_t ss;
	struct timespec to;
	siginfo_t si;
	double t_end;

	child_run(prefix, plen, verbose);
	fflush(stdout);
	fflush(stderr);
	pid = fork();
	if (0 == pid) {
		sc_verbose = verbose;
#ifdef SC_HAS_ASAN
		__asan_set_error_report_callback(sc_asan_cb);
#endif
		memset(sc_thr, 0, sizeof(sc_thr));
		sc_nthr = 1;
		sc_thr[0].used = 1;
		sc_thr[0].pt = pthread_self();
		sc_my_id = 0;
		sc_active = 1;
		ex_sc->fn(ex_sc->arg);
		sc_active = 0;
		sc_sh->finished = 1;
		_exit(0);
	}
	if (pid < 0) {
		perror("fork");
		exit(2);
	}
	sigemptyset(&ss);
	sigaddset(&ss, SIGCHLD);
	t_end = now_s() + (verbose ? 120.0 : ex_time_limit);
	for (;;) {
		pid_t w = waitpid(pid, &status, WNOHANG);
		if (w == pid)
			break;
		if (now_s() > t_end) {
			kill(pid, SIGKILL);
			waitpid(pid, &status, 0);
			if (SC_V_OK == sc_sh->verdict) {
				sc_sh->verdict = SC_V_TIMEOUT;
				strcpy(sc_sh->clause, "timeout");
				snprintf(sc_sh->message, sizeof(sc_sh->message), "execution did not end within the wall-clock limit (steps=%u)", sc_sh->steps);
			}
			return;
		}
		to.tv_sec = 0;
		to.tv_nsec = 20 * 1000 * 1000;
		sigtimedwait(&ss, &si, &to);
	}
	if (WIFSIGNALED(status) && SC_V_OK == sc_sh->verdict) {
		sc_sh->verdict = SC_V_CRASH;
		snprintf(sc_sh->clause, sizeof(sc_sh->clause), "crash:signal-%d", WTERMSIG(status));
		snprintf(sc_sh->message, sizeof(sc_sh->message), "child killed by signal %d", WTERMSIG(status));
	} else if (SC_V_OK == sc_sh->verdict && !sc_sh->finished) {
		sc_sh->verdict = SC_V_CRASH;
		snprintf(sc_sh->clause, sizeof(sc_sh->clause), "crash:exit");
		snprintf(sc_sh->message, sizeof(sc_sh->message), "child exited (status %d) before the scenario returned", status);
	}
}

static void
fmt_choices(char *buf, size_t n, const sc_point_t *pts, uint32_t np) {
	uint32_t i; size_t o = 0;
	o += (size_t)snprintf(buf + o, n - o, "n=%u", np);
	for (i = 0; i < np && o + 16 < n; i ++) {
		if (0 != pts[i].chosen)
			o += (size_t)snprintf(buf + o, n - o, ",%u:%u", i, pts[i].chosen);
	}
}

static void
record_outcome(void) {
	uint64_t h = 1469598103934665603ull;
	uint32_t i, pos, k;
	for (i = 0; i < sc_sh->log_len; i ++) { h ^= (uint8_t)sc_sh->log[i]; h *= 1099511628211ull; }
	h ^= (uint64_t)sc_sh->verdict << 56;
	if (0 == h) h = 1;
	pos = (uint32_t)(h >> 24) & (EX_OUT_TBL - 1);
	for (k = 0; k < 128; k ++) {
		if (ex_out_tbl[pos] == h) return;
		if (0 == ex_out_tbl[pos]) {
			ex_out_tbl[pos] = h;
			ex_outcomes ++;
			return;
		}
		pos = (pos + 1) & (EX_OUT_TBL - 1);
	}
}

static void
record_violation(int cost) {
	int i;
	ex_viol_t *v = NULL;
	uint32_t k, last = 0;

	for (i = 0; i < ex_nviols; i ++) {
		if (0 == strcmp(ex_viols[i].clause, sc_sh->clause)) { v = &ex_viols[i]; break; }
	}
	if (NULL == v) {
		if (ex_nviols == 64) return;
		v = &ex_viols[ex_nviols ++];
		memset(v, 0, sizeof(*v));
		strncpy(v->clause, sc_sh->clause, sizeof(v->clause) - 1);
		v->best_cost = 1 << 30;
	}
	v->count ++;
	if (cost < v->best_cost) {
		v->best_cost = cost;
		for (k = 0; k < sc_sh->npoints; k ++) {
			if (0 != sc_sh->points[k].chosen) last = k + 1;
		}
		free(v->best_prefix);
		v->best_prefix = (uint8_t *)malloc(last + 1);
		for (k = 0; k < last; k ++) v->best_prefix[k] = sc_sh->points[k].chosen;
		v->best_len = last;
		strncpy(v->message, sc_sh->message, sizeof(v->message) - 1);
	}
}

/* depth = number of non-default choices in prefix; owned = this shard is responsible for the node */
static void
explore(const uint8_t *prefix, uint32_t plen, int cost_p, int cost_f, int depth, int owned) {
	uint32_t np, i;
	sc_point_t *pts;
	uint8_t *npf;
	int cp, cf, alt, child_owned;

	if (ex_cut)
		return;
	if ((ex_deadline > 0 && now_s() > ex_deadline) || (ex_max_execs && ex_execs >= ex_max_execs)) {
		ex_cut = 1;
		return;
	}
	exec_one(prefix, plen, 0);
	if (SC_V_TIMEOUT == sc_sh->verdict) {
		/* A wall-clock limit says nothing on a loaded machine: run the same schedule again,
		 * alone in this process, with a far longer limit before believing it. */
		ex_time_limit = 120.0;
		exec_one(prefix, plen, 0);
		ex_time_limit = 10.0;
		ex_retried_timeouts ++;
	}
	ex_execs ++;
	np = sc_sh->npoints;
	if (SC_V_DIVERGED == sc_sh->verdict) {
		printf("HARNESS-ERROR\t%s\tdiverged: %s\n", ex_sc->name, sc_sh->message);
		fflush(stdout);
		exit(2);
	}
	if (owned) {
		ex_owned ++;
		ex_points += np;
		ex_steps += sc_sh->steps;
		if (np > ex_maxpoints) ex_maxpoints = np;
		if (cost_p < 16) ex_hist_p[cost_p] ++;
		record_outcome();
		if (SC_V_OK != sc_sh->verdict) {
			ex_fail_execs ++;
			record_violation(cost_p + cost_f);
		}
	}
	if (np <= plen && plen > 0 && np < plen) {
		/* the execution ended before consuming the whole prefix: cannot happen for prefixes
		 * generated from a parent's trace (determinism) */
		printf("HARNESS-ERROR\t%s\tprefix longer than execution (%u < %u)\n", ex_sc->name, np, plen);
		fflush(stdout);
		exit(2);
	}
	pts = (sc_point_t *)malloc(sizeof(sc_point_t) * (np ? np : 1));
	memcpy(pts, sc_sh->points, sizeof(sc_point_t) * np);
	/* verify prefix was honoured */
	for (i = 0; i < plen && i < np; i ++) {
		if (pts[i].chosen != prefix[i]) {
			printf("HARNESS-ERROR\t%s\tchoice mismatch at %u\n", ex_sc->name, i);
			exit(2);
		}
	}
	npf = (uint8_t *)malloc(np + 1);
	for (i = 0; i < np; i ++)
		npf[i] = pts[i].chosen;
	for (i = plen; i < np && !ex_cut; i ++) {
		for (alt = 1; alt < pts[i].nalts && !ex_cut; alt ++) {
			alt_cost(pts[i].kind, pts[i].nalts, alt, &cp, &cf);
			if (cost_p + cp > ex_bound_p || cost_f + cf > ex_bound_f)
				continue;
			child_owned = owned;
			if (depth + 1 == ex_split_depth) {
				child_owned = ((ex_node_counter ++ % (uint64_t)ex_nshards) == (uint64_t)ex_shard);
				if (!child_owned)
					continue;
			} else if (depth + 1 < ex_split_depth) {
				child_owned = (0 == ex_shard); /* shallow nodes are walked by everybody, owned by shard 0 */
			}
			npf[i] = (uint8_t)alt;
			explore(npf, i + 1, cost_p + cp, cost_f + cf, depth + 1, child_owned);
			npf[i] = 0;
		}
		npf[i] = pts[i].chosen; /* == 0 beyond the prefix */
	}
	free(npf);
	free(pts);
}

static int
parse_choices(const char *s, uint8_t *out, uint32_t *len) {
	/* format: "n=<N>,<i>:<c>,<i>:<c>..."  (n is informative) */
	uint32_t last = 0, i, c;
	const char *p = s;
	memset(out, 0, SC_MAX_POINTS);
	while (NULL != (p = strchr(p, ','))) {
		p ++;
		if (2 != sscanf(p, "%u:%u", &i, &c) || i >= SC_MAX_POINTS)
			return (-1);
		out[i] = (uint8_t)c;
		if (i + 1 > last) last = i + 1;
	}
	*len = last;
	return (0);
}

int
sc_main(int argc, char **argv) {
	int i, k;
	const char *scen = NULL, *replay = NULL, *tier = "quick";
	double deadline = 0, t0;
	uint8_t *pf;
	uint32_t plen = 0;
	sigset_t ss;
	char cbuf[4096];

	for (i = 1; i < argc; i ++) {
		if (0 == strcmp(argv[i], "--scenario") && i + 1 < argc) scen = argv[++ i];
		else if (0 == strcmp(argv[i], "--bound-p") && i + 1 < argc) ex_bound_p = atoi(argv[++ i]);
		else if (0 == strcmp(argv[i], "--bound-f") && i + 1 < argc) ex_bound_f = atoi(argv[++ i]);
		else if (0 == strcmp(argv[i], "--shard") && i + 1 < argc) sscanf(argv[++ i], "%d/%d", &ex_shard, &ex_nshards);
		else if (0 == strcmp(argv[i], "--split-depth") && i + 1 < argc) ex_split_depth = atoi(argv[++ i]);
		else if (0 == strcmp(argv[i], "--deadline") && i + 1 < argc) deadline = atof(argv[++ i]);
		else if (0 == strcmp(argv[i], "--max-execs") && i + 1 < argc) ex_max_execs = strtoull(argv[++ i], NULL, 10);
		else if (0 == strcmp(argv[i], "--replay") && i + 1 < argc) replay = argv[++ i];
		else if (0 == strcmp(argv[i], "--tier") && i + 1 < argc) tier = argv[++ i];
		else if (0 == strcmp(argv[i], "--list")) {
			for (k = 0; k < sc_nscenarios; k ++) printf("%s\n", sc_scenarios[k].name);
			return (0);
		}
		else if (0 == strcmp(argv[i], "--progress") || 0 == strcmp(argv[i], "--skip-until")) i ++;
	}
	(void)tier;
	for (k = 0; k < sc_nscenarios; k ++) {
		if (NULL != scen && 0 == strcmp(scen, sc_scenarios[k].name)) ex_sc = &sc_scenarios[k];
	}
	if (NULL == ex_sc) {
		fprintf(stderr, "unknown scenario %s\n", scen ? scen : "(none)");
		return (2);
	}
	sc_sh = (sc_shared_t *)mmap(NULL, sizeof(sc_shared_t), PROT_READ | PROT_WRITE, MAP_SHARED | MAP_ANONYMOUS, -1, 0);
	if (MAP_FAILED == sc_sh) { perror("mmap"); return (2); }
	sc_sh->step_limit = 20000;
	sigemptyset(&ss);
	sigaddset(&ss, SIGCHLD);
	sigprocmask(SIG_BLOCK, &ss, NULL);
	signal(SIGPIPE, SIG_IGN);
	setvbuf(stdout, NULL, _IOFBF, 1 << 16);
	pf = (uint8_t *)calloc(1, SC_MAX_POINTS);

	if (NULL != replay) {
		if (0 != parse_choices(replay, pf, &plen)) { fprintf(stderr, "bad choices\n"); return (2); }
		sc_sh->step_limit = 200000;
		exec_one(pf, plen, 1 + (NULL != getenv("SC_TRACE")));
		fmt_choices(cbuf, sizeof(cbuf), sc_sh->points, sc_sh->npoints);
		printf("REPLAY\t%s\tverdict=%d\tclause=%s\tchoices=%s\tmsg=%s\n", ex_sc->name, sc_sh->verdict, sc_sh->clause, cbuf, sc_sh->message);
		printf("LOG-BEGIN\n%.*sLOG-END\n", (int)sc_sh->log_len, sc_sh->log);
		if (SC_V_OK != sc_sh->verdict)
			printf("VIOL\t%s\t%s\t%s\t%s\n", ex_sc->name, sc_sh->clause, cbuf, sc_sh->message);
		printf("DONE\n");
		return (0);
	}

	t0 = now_s();
	if (deadline > 0) ex_deadline = t0 + deadline;
	/* determinism gate: the default execution twice, byte-identical trace and log */
	{
		sc_point_t *p1; uint32_t n1, l1; char *g1;
		exec_one(pf, 0, 0);
		if (SC_V_TIMEOUT == sc_sh->verdict) {	/* loaded machine: once more with the long limit, as explore() does */
			ex_time_limit = 120.0; exec_one(pf, 0, 0); ex_time_limit = 10.0; ex_retried_timeouts ++;
		}
		n1 = sc_sh->npoints; l1 = sc_sh->log_len;
		p1 = (sc_point_t *)malloc(sizeof(sc_point_t) * (n1 + 1)); memcpy(p1, sc_sh->points, sizeof(sc_point_t) * n1);
		g1 = (char *)malloc(l1 + 1); memcpy(g1, sc_sh->log, l1);
		exec_one(pf, 0, 0);
		if (SC_V_TIMEOUT == sc_sh->verdict) {
			ex_time_limit = 120.0; exec_one(pf, 0, 0); ex_time_limit = 10.0; ex_retried_timeouts ++;
		}
		if (n1 != sc_sh->npoints || l1 != sc_sh->log_len || 0 != memcmp(p1, sc_sh->points, sizeof(sc_point_t) * n1) || 0 != memcmp(g1, sc_sh->log, l1)) {
			printf("HARNESS-ERROR\t%s\tdefault execution is not deterministic (points %u vs %u, log %u vs %u)\n", ex_sc->name, n1, sc_sh->npoints, l1, sc_sh->log_len);
			fflush(stdout);
			return (2);
		}
		if (0 == ex_shard) {
			fmt_choices(cbuf, sizeof(cbuf), sc_sh->points, sc_sh->npoints);
			printf("SAMPLE\t%s\t0\tdefault schedule: %u choice points, %u steps, verdict %d, log %u bytes\n", ex_sc->name, n1, sc_sh->steps, sc_sh->verdict, l1);
		}
		free(p1); free(g1);
	}
	explore(pf, 0, 0, 0, 0, (0 == ex_shard));

	printf("STAT\t%s\tcases\t%llu\n", ex_sc->name, (unsigned long long)ex_execs);
	printf("STAT\t%s\trun\t%llu\n", ex_sc->name, (unsigned long long)ex_owned);
	printf("STAT\t%s\tnontrivial\t%llu\n", ex_sc->name, (unsigned long long)(ex_owned - ((0 == ex_shard) ? 1 : 0)));
	printf("STAT\t%s\tfails\t%llu\n", ex_sc->name, (unsigned long long)ex_fail_execs);
	printf("STAT\t%s\toutcomes\t%llu\n", ex_sc->name, (unsigned long long)ex_outcomes);
	printf("STAT\t%s\tpoints\t%llu\n", ex_sc->name, (unsigned long long)ex_points);
	printf("STAT\t%s\tsteps\t%llu\n", ex_sc->name, (unsigned long long)ex_steps);
	printf("STAT\t%s\tmaxpoints\t%llu\n", ex_sc->name, (unsigned long long)ex_maxpoints);
	for (k = 0; k < 16; k ++) {
		if (ex_hist_p[k])
			printf("STAT\t%s\texecs_with_%d_deviations\t%llu\n", ex_sc->name, k, (unsigned long long)ex_hist_p[k]);
	}
	if (ex_retried_timeouts)
		printf("NOTE\tretried\t%s: %llu execution(s) hit the 10 s wall-clock limit and were re-run with a 120 s limit\n", ex_sc->name, (unsigned long long)ex_retried_timeouts);
	if (ex_cut)
		printf("NOTE\tcut\t%s shard %d stopped at deadline/max-execs after %llu executions\n", ex_sc->name, ex_shard, (unsigned long long)ex_execs);
	for (k = 0; k < ex_nviols; k ++) {
		size_t o = 0; uint32_t j;
		o += (size_t)snprintf(cbuf + o, sizeof(cbuf) - o, "n=%u", ex_viols[k].best_len);
		for (j = 0; j < ex_viols[k].best_len && o + 16 < sizeof(cbuf); j ++) {
			if (ex_viols[k].best_prefix[j])
				o += (size_t)snprintf(cbuf + o, sizeof(cbuf) - o, ",%u:%u", j, ex_viols[k].best_prefix[j]);
		}
		printf("VIOL\t%s\t%s\t%s\tdeviations=%d failing_schedules=%llu | %s\n", ex_sc->name, ex_viols[k].clause, cbuf,
		    ex_viols[k].best_cost, (unsigned long long)ex_viols[k].count, ex_viols[k].message);
		printf("CLAUSE\t%s\t%s\t%llu\n", ex_sc->name, ex_viols[k].clause, (unsigned long long)ex_viols[k].count);
	}
	printf("DONE\n");
	fflush(stdout);
	return (0);
}
