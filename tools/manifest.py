#!/usr/bin/env python3
"""Regenerates /verif/MANIFEST.json from the table below (single source of truth for what is claimed)."""
import json, os, subprocess

V = os.path.dirname(os.path.dirname(os.path.abspath(__file__)))

E1_NOTE = ('Sequentially consistent interleavings only (no weak-memory reorderings); schedules are switched at wrapped libc calls '
           '(pthread_*, epoll_*, read/write/close, pipe2, timerfd_*, calloc/free, sched_yield/nanosleep) and guarded source hooks; '
           'bounded by the stated number of preemptions/faults and free-switch deviations and by the pool sizes listed in evidence; '
           'kernel pipes/epoll are the real ones.')

CHECKS = {
 'C06': dict(engine='E2-evloop', category='model_checking', design='DESIGN.md 4, 9/C06',
   technique='explicit exhaustive enumeration of event-loop histories executed on the real tpt_loop (wrapped epoll_wait plays the environment), checked step by step against a model of the registration promise; plus exhaustive timer-unit and validation grids',
   text='All histories up to depth 4 (quick) / 5 (thorough) of add / enable (both forms) / disable / delete / make-ready / drain / peer-close / timer-expiry / callback-side actions (disable or delete self, enable the next, delete or disable every other registration, drain) over a pipe, a socket and a timer are run on the real loop with the real epoll and timerfd; after every loop iteration the callback that ran must be registered, enabled and have its condition (one-shot gone, dispatch silent until re-enabled, EOF flag iff peer closed, no lost event). The itimerspec/clock/flags reaching timerfd_settime are compared with integer arithmetic for every unit x boundary value; malformed registrations must be refused before reaching the kernel.',
   note='Single loop thread, registrations issued on the owning thread or before the loop runs; process events (TP_EV_PROC on a real forked child) are driven by their own history enumeration (add / delete / disable / enable again / child exits, interleaved with a read event, two steps deeper than the main alphabet); epoll round-robin fairness assumed for the no-lost-event clause; time is owned (timers expire only when the history says so).'),
 'C10': dict(engine='E1-sched', category='model_checking', design='DESIGN.md 3, 9/C10',
   technique='stateless model checking of the real pthread code: deviation-bounded exhaustive DFS over schedules and write() faults under a cooperative scheduler (link-time --wrap), ASan stack-use-after-return as memory oracle',
   text='Every schedule (<=2 preemptions/faults quick, <=3 thorough on small pools) of every broadcast API x flag x caller x not-running-subset scenario is executed on the real threadpool sources and checked for exactly-once delivery on the right OS thread, true counts, SYNC return-after-last-callback, no access to the dead caller frame, done callback once/on originator/after all, one-by-one order and non-overlap.',
   note=E1_NOTE),
 'C05': dict(engine='E1-sched', category='model_checking', design='DESIGN.md 3, 9/C05',
   technique='stateless model checking of the real pthread code: deviation-bounded exhaustive DFS over schedules and write() faults (EAGAIN/EPIPE/EBADF) under a cooperative scheduler (link-time --wrap)',
   text='Every schedule and queue-write fault placement within the bound of multi-sender scenarios (external threads, pool threads, self-sends, the pool virtual thread; all direct-call flag sets; destination running / never started / stopped) is executed on the real pool; each send is checked for exactly-once delivery on the destination OS thread (or the allowed synchronous direct call), per-sender order, nothing fabricated.',
   note=E1_NOTE + ' A send racing a real shutdown is represented by EPIPE/EBADF answers from write(), as the property lists it.'),
 'C11': dict(engine='E1-sched', category='model_checking', design='DESIGN.md 3, 9/C11',
   technique='stateless model checking of the real pthread code: deviation-bounded exhaustive DFS over schedules of life-cycle scripts plus exhaustive single/double resource-failure injection (calloc, epoll_create1, pipe2, epoll_ctl, pthread_create) via link-time wrappers',
   text='All contract-respecting life-cycle scripts (create / threads_create / attach_first / in-flight message, read event or timer, busy callback / shutdown from outside, concurrently, from a worker / wait, also from a stop hook / destroy; attach_first after every thread exists) are explored for termination, hook balance, no callback after destroy, descriptor / allocation / thread balance (ASan for use-after-free); every k-th resource failure during creation must fail cleanly.',
   note=E1_NOTE),
 'C16': dict(engine='E2-evloop', category='model_checking', design='DESIGN.md 4, 9/C16',
   technique='explicit exhaustive enumeration of (task configuration x environment history) executed on the real event loop and the real threadpool_task handlers (wrapped epoll_wait plays arrivals, peer close, timer expiry, re-enable), byte-stream/cursor invariants checked in every callback and at quiescence',
   text='For receive and send tasks over a stream socketpair: all fragmentations of a 6-byte payload, peer close and timeout expiry at every position, every event-flag choice, callback-after-every-read on/off, direct or scheduled first I/O, six buffer windows and six callback policies (continue, stop/destroy at the k-th call, dispatch pause + re-enable). Checked: bytes in the window equal the stream prefix, nothing outside the window is written, transferred counts add up to the cursor movement, cursors stay consistent and inside the buffer, an armed task moves everything that arrived, EOF and ETIMEDOUT are reported once per occurrence, nothing is called back after stop/destroy or while a dispatch task is paused.',
   note='Stream tasks over AF_UNIX sockets; a second harness forces short writes on the send side (24 KiB window, minimal SO_SNDBUF, the peer drains in every sequence of 1500/4096/9000-byte chunks) and drives the datagram packet receiver (all sequences of <=3-4 datagrams and two-datagram bursts into 8/12-byte buffers, consume or accumulate policy); a third harness drives the accept, connect, connect_ex and notify variants over loop-back TCP (listening / refusing / never-answering addresses, every address list of length 1..3, retry and delay options, destroy and clock-jump points, timers fired also after stop/destroy); histories may stop and start a task again; bind_accept*_create are not driven; one loop thread; time and the clock are owned by the harness.'),
 'C14': dict(engine='E4-enum', category='exploration', design='DESIGN.md 6, 9/C14',
   technique='small-scope exhaustive input enumeration of the real encoders/decoders against independent references (bounded exhaustive exploration)',
   text='All values of 8/16-bit integers and the boundary set of wider types (decimal formatters/parsers and the 20 hex parsers), all byte strings up to length 2-3 plus structural alphabets through Base64 (incl. a junk byte at every position for the tolerant decoder), hex, XML entities, URL unescaping under 5 percent-encoders, every CRC table entry and all 8 CRC variants over lengths 0..129 x alignments x split points: each compared with an independent reference (snprintf, bit-accumulator Base64, bitwise Rocksoft-model CRC self-checked against catalogue values, zlib) and round-tripped; reported lengths must equal the bytes produced.',
   note='Values outside the enumerated alphabets/lengths are not covered; references: snprintf, bit-accumulator Base64, bitwise CRC written in the harness.'), 'C20': dict(engine='E4-enum', category='exploration', design='DESIGN.md 6, 9/C20, harness/C20/NOTES.md',
   technique='complete walk of a finite RFC 7230/3986 grammar (request lines, status lines, header blocks, all single smuggling edits) through the real parser, compared with an independent ABNF reference parser (bounded exhaustive exploration)',
   text='Every request line / status line / header block the finite generator can produce (quick: blocks of <=3 fields, thorough <=4) plus every single edit introducing a listed smuggling pattern is parsed by the real http.c; returned spans must equal an independent reference parser and be sub-spans of the input, header lookup must return exactly the case-insensitively matching fields (OWS trimmed, obs-fold honoured) with the true count, and http_req_sec_chk must reject iff a listed pattern is present.',
   note='Constructs outside the generator (userinfo, fragments, pct-encoding, obs-text, lower-case extension methods, octets >= 0x80) are not covered; path trimming is demanded exactly as the comments in http.c document it; see harness/C20/NOTES.md for the decisions.'), 'C13': dict(engine='E4-enum', category='exploration', design='DESIGN.md 6, 9/C13, harness/C13/NOTES.md',
   technique='small-scope exhaustive enumeration of hostile packets (header fields over their own alphabets, tails over per-protocol alphabets up to a length bound, every truncation) through the real parsers, exact-size heap copies under ASan, span-containment oracle, CPU watchdog',
   text='DNS, RADIUS, DHCPv4, HTTP, SDP, SAP, RTP and MPEG-TS parsers/validators are called on every packet of the enumerated scope placed flush against an ASan redzone: no memory error, every returned pointer/length inside the message or the caller buffer, termination. Accessors documented as call-after-validator are only driven with packets the library validator accepted.',
   note='Byte values outside the per-parser alphabets and lengths beyond the bound are not covered; RFC conformance of returned values is not judged here; see harness/C13/NOTES.md for the scope table and the 12 defects found and fixed.'),
 'C15': dict(engine='E3-seqbfs', category='model_checking', design='DESIGN.md 5, 9/C15, harness/C15/NOTES.md',
   technique='exhaustive enumeration of builder operation sequences on the real DNS/RADIUS builders (every section-ordered add sequence up to the depth bound into every buffer capacity; every attribute sequence x code x secret), each compared with independent RFC 1035 / RFC 2865 / RFC 2869 reference encoders and verifiers; all single-byte corruptions',
   text='Every DNS message built by a sequence of <=3 (quick) / <=5 (thorough) add operations into every capacity from header-only to exactly-fits+1 must validate, parse back field for field and be byte-identical to an independent RFC 1035 encoder (a failing add leaves the message unchanged); 69904 names round-trip. Every RADIUS packet (6 codes x attribute sequences <=3 x 4 secrets) signed by the library must verify and equal the reference authenticators (own MD5/HMAC-MD5 checked against hashlib at run time); for every single-byte/bit corruption and wrong secret the library decision equals the reference verifier decision.',
   note='No name compression (the library does not compress); names > 253 bytes only observed; accounting Message-Authenticator is the de-facto construction; see harness/C15/NOTES.md.'), 'C19': dict(engine='E3-seqbfs', category='model_checking', design='DESIGN.md 5, 9/C19, harness/C19/NOTES.md',
   technique='explicit-state breadth-first search whose transition function is the real ring buffer API on lossless snapshots of the real object, canonical state hashing, byte-stream reference model with per-reader expected position evaluated on every transition and observer',
   text='From fresh rings and from rings seeded one cycle before the round counter wraps (3 sizes x 3 minimum block sizes x 2 commit calls x 1-2 readers), every sequence of writer steps (get, commit with/without leading offset, forced wrap, aborted write) and reader steps (bounded/unbounded get, advance by all/1/0) is explored level by level to a state target; every region must lie inside the storage, concatenate to the written stream in order without repetition, a skip must have been reported as dropped, and avail_size must equal a full read.',
   note='Depth is bounded by a per-job state target (completed depth per job is in the evidence); exact drop_size values are recorded, not enforced; r_buf_rpos_calc_size crashing on cursors across the counter wrap is recorded as an observation outside the statement; see harness/C19/NOTES.md.'),
 'C08': dict(engine='E3-seqbfs', category='model_checking', design='DESIGN.md 5, 7, 9/C08, harness/C08/NOTES.md',
   technique='partition-confluence state exploration of the real streaming cipher (states = stream position per configuration, transitions = crypt of the next c bytes under every alignment/in-place/keystream-only variant, each checked against an independent reference key stream and for context confluence) across a compiler/optimisation build matrix; exhaustive 2^32 sweep of the GOST substitution step',
   text='ChaCha 8/12/20 x 128/256-bit keys x counters around the 2^32 and 2^64 wraps: every (position, chunk, alignment variant) transition up to 4 blocks+1 must emit the reference key stream and leave the same live context as a single call, so every split gives the same stream; one-shot chacha/xchacha/hchacha and the block API likewise; gcc/clang x -O0..-O3 x with/without -fno-strict-aliasing. GOST 28147-89: substitution+rotate over all 2^32 inputs x 6 S-box sets (thorough) for expanded and small tables against a 6-line reference; block encrypt/decrypt/MAC on structural alphabets, all alignments, decrypt inverts encrypt, published vectors.',
   note='GOST S-box values of all six sets are anchored by libgcrypt (own tables, selected by OID: encrypt, decrypt, MAC agree), ChaCha by the published vectors the header carries and by openssl enc -chacha20 (checked at run time); key/nonce/plaintext values outside the alphabets are not covered; the 32-bit ChaCha path cannot be built in this image.'), 'C17': dict(engine='E3-seqbfs', category='model_checking', design='DESIGN.md 5, 9/C17, harness/C17/NOTES.md',
   technique='explicit-state breadth-first search over operation histories of the real INI store (transition = one real ini_buf_parse / ini_val_set* call, state = canonical line list), a list-of-lists reference model and all observers evaluated in every state; one search runs to a fixpoint',
   text='Three searches (set-only over a small alphabet until no new state appears; parse+set to depth 5-6; a wider mixed alphabet to depth 3-4), each under ASan and under a deterministic in-place-realloc allocator: in every state case-sensitive and case-insensitive lookups for every spelling, section and value enumeration order, calc_size == bytes generated, generation into every smaller capacity fails without writing past it, parse(gen(store)) equivalent to the store.',
   note='Duplicate (section,name) pairs are not generated (the store keeps duplicates and answers with the first, which has no ordered-map meaning); empty names are outside the API precondition; see harness/C17/NOTES.md.'),
 'C18': dict(engine='E4-enum', category='exploration', design='DESIGN.md 6, 9/C18, harness/C18/NOTES.md',
   technique='small-scope exhaustive enumeration: digit-shape grid of IPv4 addresses, every zero-run shape of IPv6, every port boundary, every output capacity; all strings over an 11-symbol alphabet up to length 6-7 through the parsers; all prefix lengths (thorough: all 2^32 IPv4 addresses) against integer arithmetic, libc inet_pton and an RFC 5952 formatter',
   text='Formatting must give the conventional text (dotted quad, RFC 5952, brackets with a port), parse back to the same address and port, never write outside any capacity 0..need+10 and report a sufficient size; the parsers must accept the documented spellings with the right result and never return an unrelated address; len<->mask conversions are inverse, truncation and membership agree with integer arithmetic.',
   note='Lenient acceptance the documentation is silent on is counted, not judged; non-contiguous masks, scope ids, UNIX paths with special characters are outside; see harness/C18/NOTES.md.'), 'C02': dict(engine='E4-enum', category='exploration', design='DESIGN.md 6, 7, 9/C02, harness/C02/NOTES.md',
   technique='small-scope exhaustive enumeration over whole groups of 12 synthetic curves (all point pairs, all scalars) and operand/scalar alphabets on the 32 built-in curves, repeated for every member of an explicit build-configuration matrix, against a textbook affine-law oracle (native integers / Python ints)',
   text='On 8-bit-field synthetic curves every ordered pair (P,Q) incl. infinity for add/sub, every P for doubling, every scalar 0..max(n,2^m-1) for base-point and unknown-point multiplication, every (k1,k2) on the smallest groups for twin multiplication; operand and scalar alphabets on 16-bit-field and the 32 built-in curves; quick 13 builds covering every macro value once, thorough 324 builds (coordinates x fixed-point / unknown-point / twin algorithm x window width x digit width). Every result must equal the reference point and lie on the curve; non-zero rc on valid operands is a violation.',
   note='Scalars and points outside the alphabets on real-size curves are not covered; window wider than the digit, Barrett reduction and BN_CC_MULL_DIV off are outside; affine + interleaved twin does not link (reported as skipped); see harness/C02/NOTES.md.'), 'C12': dict(engine='E4-enum', category='exploration', design='DESIGN.md 6, 9/C12, harness/C12/NOTES.md',
   technique='small-scope exhaustive enumeration: every byte string over a per-function alphabet up to a length bound as an exact-size heap copy (ASan redzones / PROT_NONE guard pages at both ends), every output capacity 0..need+1, canary-checked output arenas, CPU watchdog',
   text='Base64, hex, all num2str/str2num/strh2num functions, UTF-8, ASN.1, bencode (incl. deep nesting), XML extraction and entity coding, INI parse/generate/set, buf2args, line iteration, the mem_* search/replace helpers and CRC are called on every input of their scope with every capacity: no read outside the input, no write outside the capacity, the reported size is sufficient, an exactly sized buffer is accepted, the call returns.',
   note='Inputs outside the per-target alphabets/lengths are not covered; returned extents that the function only reports (asn_parse data_size) are not judged; see harness/C12/NOTES.md for the table and the 11 fixes it led to.'), 'C01': dict(engine='E4-enum', category='exploration', design='DESIGN.md 6, 7, 9/C01, harness/C01/NOTES.md',
   technique='small-scope exhaustive enumeration of operand values (8-bit digits: all 1x2-digit pairs, all values < 2^16 for unary ops, every modulus and residue; thorough: all 2^32 pairs) and a structural digit alphabet at every width, against independent reference integers, across the digit-width x multiply/divide-routine x compiler x optimisation matrix, with stale-storage and aliasing variants of every call',
   text='Every listed bignum operation is called on every operand tuple of the scope with capacities from minimal to 4 digits (and, in the full-capacity configurations, with BN_BIT_LEN = 2 digits so that operands and moduli are as wide as a bn_t can be), once with 0xA5 and once with 0x00 in all dead storage, in non-aliased and every permitted aliased form, in 18 (quick) / 99+ (thorough) builds: rc == 0 with a value, carry, borrow or remainder different from the reference is a violation, as are crashes, wild memory sizes and buffer overruns; NAF/JSF outputs are re-evaluated and checked for their defining form.',
   note='Operand values outside the alphabets at >= 16-bit digits are not covered; a non-zero rc is always accepted; Barrett, bn_egcd, bn_mod_inv3, bn_sqrt4 are outside the property; see harness/C01/NOTES.md.'),
 'C03': dict(engine='E4-enum', category='exploration', design='DESIGN.md 6, 7, 9/C03, harness/C03/NOTES.md',
   technique='exhaustive enumeration on tiny prime-order curves: every (private key, hash integer 0..2n, nonce 0..2n) through the signer, the full verifier truth table over all (Q, e, r, s) against an independent SEC 1 / GOST R 34.10 reference with brute-force point arithmetic; byte entry points with every hash length and every single-bit / boundary mutation under ASan; several build configurations',
   text='For both algorithm ids: whenever signing succeeds the signature verifies with the public-key verifier, the private-key verifier and the reference verifier; reference-made signatures are accepted; the accept/reject decision of both verifiers equals the standard for every tuple of the truth table (r, s in [0, n+1], all group points and off-curve points as Q); be/le byte entry points with hashes shorter, equal and longer than the curve size.',
   note='Real-size curves only through the repository vectors and mutation alphabets; "never reports success when an internal computation failed" is decided by fault enumeration through the guarded hook LCB_VERIF_FAIL in the three scalar-multiplication dispatchers (every k-th multiplication of every byte-level operation on all 32 built-in curves fails in turn; the operation must return non-zero), other internal failures (bignum EOVERFLOW) are not injected; little-endian and GOST hashes longer than the field have no standard reading and are checked for self-consistency only.'),
 'C09': dict(engine='E4-enum', category='exploration', design='DESIGN.md 6, 7, 9/C09, harness/C09/NOTES.md',
   technique='exhaustive enumeration on tiny curves (all points x 4 encodings x 2 byte orders; every byte string of every accepted length on one-byte fields; all seeds, private keys and (d1, d2) pairs) plus the 32 built-in curves, against a brute-force group oracle, exact-size heap buffers under ASan',
   text='export then import is the identity for every point and form; import with validation accepts exactly the encodings of the neutral element or of on-curve points annihilated by n with coordinates < p and a known prefix, compressed input recovers the root with the requested parity; key generation, public-key recovery and Diffie-Hellman equal the reference and DH is symmetric; every byte entry point stays inside the sizes passed.',
   note='Hybrid prefixes 06/07 with a wrong parity bit are accepted by the library: observed, not enforced (the statement does not settle it); cofactor DH on points outside <G> observed only; EC_DISABLE_PUB_KEY_CHK builds are judged on round trips and memory only.'), 'C04': dict(engine='E3-seqbfs', category='model_checking', design='DESIGN.md 5, 7, 9/C04, harness/C04/NOTES.md',
   technique='partition-confluence state exploration of the real streaming hash contexts (states = absorbed length, transitions = update with the next c bytes from a buffer at alignment a; every transition must reach the single-update context, so every split is decided by induction), digests from every state against hashlib / an independent Streebog reference, across a build matrix with every block-transform implementation forced',
   text='MD5, SHA-1, SHA-224/256/384/512, Streebog-256/512 x every transform the build contains (generic, SSE, SHA-NI, AVX) x 4 content patterns: every (absorbed n, chunk c, alignment a) transition up to 2-4 blocks+1 must give the canonical context of a single update, final from every n and the one-shot / hex entry points must equal the reference digest, the context must be wiped after final, and (dead-stack scan, unsanitised optimised builds, every entry point run on a stack the harness owns) no whole message tail may remain in the dead stack of the one-shot entry points; length-field carries are reached from contexts with preset byte counters near 2^29..2^125; quick 8 builds, thorough 52 (gcc/clang x -O0/-O2/-O3 x SIMD levels x small tables).',
   note='Message contents beyond the four patterns are not covered; Streebog table VALUES are parsed from the header and anchored only by the published vectors (expanded vs small tables are cross-checked exhaustively); two gcc SSE2/SSSE3-only builds do not compile (reported as skipped).'),
 'C07': dict(engine='E3-seqbfs', category='model_checking', design='DESIGN.md 5, 7, 9/C07, harness/C07/NOTES.md',
   technique='exhaustive enumeration of key lengths 0..3 blocks+1 for all eight HMAC variants plus the partition-confluence state exploration of hmac_*_update, against Python hmac (RFC 2104) and the RFC 2104 construction over an independent Streebog reference, across the C04 build matrix',
   text='Every key length 0..3B+1 x message lengths {0,1,B-1,B,B+1,2B}: one-shot, hex and incremental (one update, byte-wise, 0|B-1|0|rest) MACs equal the reference; update confluence over every (n, c, alignment) for representative key lengths; k_opad and the whole context are all-zero after final; dead-stack scan: after every one-shot / init+update+final call on a stack the harness owns, neither keyed pad may remain there (unsanitised builds at -O1..-O3/-Os).',
   note='Key and message contents beyond the fixed patterns are not covered; k_ipad is a stack local: judged by the dead-stack scan only (runs of >= 40 bytes, so register spills of the block transform do not count); RFC 7836 restrictions on Streebog key lengths are not applied (the property asks for RFC 2104 at every length).'),
}

REASON_WIP = 'check not finished yet in this session (harness under construction; see DESIGN.md section 13)'


def main():
    props = [json.loads(l) for l in open(os.path.join(V, 'properties.jsonl'))]
    hooks = subprocess.run(['git', '-C', '/repo', 'log', '--format=%H %s'], capture_output=True, text=True).stdout.splitlines()
    hook_commits = [l.split()[0] for l in hooks if ' verif-hook:' in l]
    m = {
        'version': 1,
        'setup_cmd': 'true',
        'hooks': {
            'guard': 'LIBLCB_VERIF',
            'enable': 'checks compile the sources straight from /repo (working tree) with -DLIBLCB_VERIF; the repository\'s own CMake build never defines it',
            'baseline_off_cmd': 'cmake -G Ninja -B /repo/_build -DENABLE_LIBLCB_TESTS=1 -DCMAKE_BUILD_TYPE=RelWithDebInfo /repo && cmake --build /repo/_build && ctest --test-dir /repo/_build -j8 --timeout 900',
            'source_commits': hook_commits,
            'add_only': True,
        },
        'engines': [
            {'name': 'E1-sched', 'path': 'engines/sched', 'serves_properties': ['C05', 'C10', 'C11'],
             'kind_free_text': 'cooperative scheduler over link-time wrapped libc + fork-per-execution deviation-bounded DFS explorer (stateless model checking of the implementation)'},
            {'name': 'E2-evloop', 'path': 'engines/evloop', 'serves_properties': ['C06', 'C16'],
             'kind_free_text': 'wrapped epoll_wait as environment driver: exhaustive enumeration of event-loop histories on the real loop'},
            {'name': 'E3-seqbfs', 'path': 'harness/C17, harness/C19', 'serves_properties': ['C17', 'C19', 'C04', 'C07', 'C08'],
             'kind_free_text': 'explicit-state BFS whose transition function is the real API; partition-confluence exploration for streaming crypto'},
            {'name': 'E4-enum', 'path': 'engines/enum', 'serves_properties': ['C01', 'C02', 'C03', 'C09', 'C12', 'C13', 'C14', 'C15', 'C18', 'C20'],
             'kind_free_text': 'small-scope exhaustive input/capacity/configuration enumeration against reference models, ASan redzones as memory oracle'},
        ],
        'checks': [],
        'not_applicable': [],
        'notes': 'Single entry point ./check <id> --tier quick|thorough [--replay file]; findings in known_findings.json; see DESIGN.md.',
    }
    for p in props:
        pid = p['id']
        c = CHECKS.get(pid)
        if c is None:
            m['not_applicable'].append({'property_id': pid, 'reason': REASON_WIP})
            continue
        m['checks'].append({
            'property_id': pid,
            'quick_cmd': './check %s --tier quick' % pid,
            'thorough_cmd': './check %s --tier thorough' % pid,
            'evidence_file': 'evidence/%s.json' % pid,
            'replay_cmd_template': './check %s --replay {path}' % pid,
            'engine': c['engine'],
            'level_claimed': {'category': c['category'], 'text': c['text'], 'design_ref': c['design']},
            'level_note': c['note'],
            'technique': c['technique'],
        })
    json.dump(m, open(os.path.join(V, 'MANIFEST.json'), 'w'), indent=1)
    try:
        import jsonschema
        jsonschema.validate(m, json.load(open('/root/.vp/MANIFEST.schema.json')))
    except ImportError:
        pass
    print('claimed:', [c['property_id'] for c in m['checks']])


if __name__ == '__main__':
    main()
