#!/bin/bash
# tools/seedcheck.sh <seed-dir> <property-id> [tier]
# seed-dir holds patch.diff and demo/run.sh (run.sh <srcdir> exits 0 on clean sources, non-zero on changed ones).
# 1. scratch worktree: demo passes on clean, fails with the patch; the repository's suite passes with the patch (guard off)
# 2. /repo: apply patch, run ./check <id>, expect exit 1 + VIOLATION; undo.
set -u
SEED=$(readlink -f "$1"); ID=$2; TIER=${3:-quick}
W=/var/tmp/seedcheck-$$
LOG=$SEED/confirm.log
: > "$LOG"
git -C /repo worktree add --detach "$W" -q HEAD || exit 2
trap 'git -C /repo worktree remove --force "$W" >/dev/null 2>&1' EXIT
echo "== demo on clean tree" | tee -a "$LOG"
( cd "$SEED/demo" && bash ./run.sh "$W" ) >> "$LOG" 2>&1; DC=$?
echo "demo(clean) exit=$DC" | tee -a "$LOG"
( cd "$W" && git apply "$SEED/patch.diff" ) >> "$LOG" 2>&1 || { echo "PATCH DOES NOT APPLY" | tee -a "$LOG"; exit 2; }
echo "== demo on changed tree" | tee -a "$LOG"
( cd "$SEED/demo" && bash ./run.sh "$W" ) >> "$LOG" 2>&1; DM=$?
echo "demo(changed) exit=$DM" | tee -a "$LOG"
if [ "${SKIP_SUITE:-0}" != 1 ]; then
  echo "== repository suite with the change (guard off)" | tee -a "$LOG"
  ( cmake -G Ninja -B "$W/_build" -DENABLE_LIBLCB_TESTS=1 -DCMAKE_BUILD_TYPE=RelWithDebInfo "$W" && cmake --build "$W/_build" && ctest --test-dir "$W/_build" -j4 --timeout 900 ) >> "$LOG" 2>&1; SU=$?
  echo "suite exit=$SU" | tee -a "$LOG"
else SU=skipped; fi
echo "== check $ID ($TIER) against /repo with the change applied" | tee -a "$LOG"
if [ "${APPLY_TO_REPO:-0}" = 1 ]; then
  git -C /repo apply "$SEED/patch.diff" || exit 2
  ( cd /verif && ./check "$ID" --tier "$TIER" ) > "$SEED/check.out" 2> "$SEED/check.err"; CK=$?
  git -C /repo checkout -- .
else  # same sources through a scratch worktree (used while other jobs are reading /repo)
  ( cd /verif && VERIF_REPO="$W" VERIF_EVIDENCE_DIR="$SEED/evidence" VERIF_REPLAY_DIR="$SEED/replay" ./check "$ID" --tier "$TIER" ) > "$SEED/check.out" 2> "$SEED/check.err"; CK=$?
fi
grep -h "VIOLATION\|KNOWN-FINDING" "$SEED/check.out" | head -5 | tee -a "$LOG"
grep -h "violation:" "$SEED/check.err" | head -5 | tee -a "$LOG"
echo "check exit=$CK" | tee -a "$LOG"
echo "SUMMARY demo_clean=$DC demo_changed=$DM suite=$SU check=$CK" | tee -a "$LOG"
