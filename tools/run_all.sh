#!/bin/bash
# tools/run_all.sh <tier> [ids...]  - runs the checks one after another, logs rc and wall time
TIER=${1:-quick}; shift
IDS=${@:-C01 C02 C03 C04 C05 C06 C07 C08 C09 C10 C11 C12 C13 C14 C15 C16 C17 C18 C19 C20}
LOG=/var/tmp/run_all.$TIER.log; : > $LOG
for c in $IDS; do
  s=$(date +%s)
  ./check $c --tier $TIER > /var/tmp/run_all.$c.$TIER.out 2> /var/tmp/run_all.$c.$TIER.err; rc=$?
  e=$(date +%s)
  echo "$c tier=$TIER rc=$rc wall=$((e-s))s known=$(grep -c KNOWN-FINDING /var/tmp/run_all.$c.$TIER.out) viol=$(grep -c '^VIOLATION' /var/tmp/run_all.$c.$TIER.out) exhaustive=$(python3 -c "import json;print(json.load(open('evidence/$c.json'))['coverage'].get('exhaustive'))")" | tee -a $LOG
done
