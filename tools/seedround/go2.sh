#!/bin/bash
# re-run seedcheck in place for an existing seed dir
ID=$1; k=$2; D=/var/tmp/seedwork/$ID-r8-$k
/verif/tools/seedcheck.sh "$D" $ID quick > "$D/seedcheck.out" 2>&1
tail -1 "$D/seedcheck.out" | sed "s/^/$ID-r8-$k: /" >> /var/tmp/seedwork/summary.txt
