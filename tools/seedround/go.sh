#!/bin/bash
# go.sh Cxx k [k2...] : copy agent output and run seedcheck sequentially for this property
ID=$1; shift
for k in "$@"; do
  D=/var/tmp/seedwork/$ID-r8-$k
  rm -rf "$D"; cp -r /tmp/seed8/out/$ID/$k "$D"
  /verif/tools/seedcheck.sh "$D" $ID quick > "$D/seedcheck.out" 2>&1
  tail -1 "$D/seedcheck.out" | sed "s/^/$ID-r8-$k: /" >> /var/tmp/seedwork/summary.txt
done
