#!/bin/bash
# suite.sh <seed-id>: repository suite with the patch (guard off) in a scratch worktree
S=$1; W=/var/tmp/suite-$S
git -C /repo worktree add --detach $W -q HEAD || exit 2
( cd $W && git apply /var/tmp/seedwork/$S/patch.diff && cmake -G Ninja -B $W/_build -DENABLE_LIBLCB_TESTS=1 -DCMAKE_BUILD_TYPE=RelWithDebInfo $W && cmake --build $W/_build && ctest --test-dir $W/_build -j4 --timeout 900 ) > /var/tmp/seedwork/$S/suite-rerun.log 2>&1
echo "$S: suite re-run exit=$?" >> /var/tmp/seedwork/suite-reruns.txt
git -C /repo worktree remove --force $W
