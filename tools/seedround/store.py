#!/usr/bin/env python3
# store.py: copy confirmed round-8 seeds into /verif/seeded/<id>/ with meta.json
import json, os, re, shutil, subprocess, sys
SW='/var/tmp/seedwork'
info=json.load(open(SW+'/info.json'))   # id -> {change, needs, status, detection}
summ={}
for l in open(SW+'/summary.txt'):
    m=re.match(r'(C\d\d-r\d-\d): (SUMMARY .*)',l.strip())
    if m: summ.setdefault(m.group(1),[]).append(m.group(2))
for sid,meta in sorted(info.items()):
    src=os.path.join(SW,sid); dst=os.path.join('/verif/seeded',sid)
    if os.path.exists(dst): shutil.rmtree(dst)
    os.makedirs(dst)
    for f in ('patch.diff','README.txt','confirm.log','patch.orig-7a7d0a1.diff'):
        if os.path.exists(os.path.join(src,f)): shutil.copy(os.path.join(src,f),dst)
    shutil.copytree(os.path.join(src,'demo'),os.path.join(dst,'demo'))
    viol=[]
    if os.path.exists(os.path.join(src,'confirm.log')):
        viol=[l.strip() for l in open(os.path.join(src,'confirm.log')) if l.startswith('VIOLATION')][:4]
    files=sorted(set(re.findall(r'^\+\+\+ b/(\S+)',open(os.path.join(src,'patch.diff')).read(),re.M)))
    m={'property':sid[:3],'round':int(sid.split('-r')[1][0]),'files':files,'change':meta['change'],'needs_to_manifest':meta['needs'],
       'confirmed':{'how':'tools/seedcheck.sh <dir> %s quick (demo on clean / patched scratch worktree of /repo, repository suite with the patch and the guard off, ./check with VERIF_REPO = patched worktree)'%sid[:3],
                    'runs':summ.get(sid,[]),'suite_rerun':meta.get('suite_rerun'),'violations_reported':viol},
       'origin':'written by a fresh sub-agent that saw only the property text, a scratch worktree of /repo and the one-line list of earlier changes for this property',
       'status':meta['status'],'detection':meta['detection']}
    json.dump(m,open(os.path.join(dst,'meta.json'),'w'),indent=1)
    print('stored',sid,meta['status'])
