#!/usr/bin/env python3
"""Free-running ThreadSanitizer pass over E1 scenario bodies (no scheduler).  Lists the racy
location pairs inside liblcb (both sides in /repo) so that hook placement can be checked.
Information only: never part of a verdict.
usage: tools/tsan_pass.py C10|C05|C11 [scenario ...]"""
import sys, os, re, subprocess, collections
sys.path.insert(0, os.path.dirname(os.path.dirname(os.path.abspath(__file__))))
from vlib import core
import importlib.util

def main():
    prop = sys.argv[1]
    spec = importlib.util.spec_from_file_location('r', os.path.join(core.VERIF, 'harness', prop, 'run.py'))
    m = importlib.util.module_from_spec(spec); spec.loader.exec_module(m)
    if hasattr(m, '_build'):
        m._build()            # generates the variants header into build/<prop>
    else:
        vs = m.variants(); m.gen_header(os.path.join(core.build_dir(prop), prop.lower() + '_variants.h'), vs)
    src = {'C10': 'harness/C10/h_c10.c', 'C05': 'harness/C05/h_c05.c', 'C11': 'harness/C11/h_c11.c'}[prop]
    out = os.path.join(core.build_dir('tsan'), prop.lower() + '_tsan')
    cmd = ['clang', '-O1', '-g', '-w', '-fsanitize=thread'] + core.PLAT_DEFS + ['-I' + core.REPO + '/include', '-I' + core.VERIF + '/engines',
           '-I' + core.VERIF + '/harness', '-I' + core.build_dir(prop), os.path.join(core.VERIF, src), os.path.join(core.VERIF, 'engines/sched/freerun.c'),
           core.repo_src('threadpool', 'threadpool.c'), core.repo_src('threadpool', 'threadpool_msg_sys.c'), '-o', out, '-pthread']
    subprocess.run(cmd, check=True)
    scens = sys.argv[2:] or subprocess.run([out, '--list'], capture_output=True, text=True).stdout.split()
    pairs = collections.Counter()
    for s in scens:
        for _ in range(3):
            p = subprocess.run([out, '--scenario', s], capture_output=True, text=True, timeout=120,
                               env=dict(os.environ, TSAN_OPTIONS='halt_on_error=0 report_signal_unsafe=0 second_deadlock_stack=0'))
            for rep in p.stderr.split('WARNING: ThreadSanitizer: ')[1:]:
                if not rep.startswith('data race'):
                    continue
                sides = re.split(r'\n\s*\n', rep)
                locs = []
                for side in sides[:2]:
                    fr = [l for l in side.splitlines() if re.match(r'\s+#\d+ ', l)]
                    loc = None
                    for l in fr:
                        mm = re.search(r'#\d+ (\S+) (' + re.escape(core.REPO) + r'/\S+?):(\d+)', l)
                        if mm:
                            loc = '%s:%s (%s)' % (os.path.relpath(mm.group(2), core.REPO), mm.group(3), mm.group(1)); break
                        if '/verif/harness' in l or 'freerun.c' in l:
                            loc = None; break
                    locs.append(loc)
                if len(locs) == 2 and all(locs):
                    pairs[tuple(sorted(locs))] += 1
    for (a, b), n in pairs.most_common():
        print('%5d  %s  <->  %s' % (n, a, b))

if __name__ == '__main__':
    main()
